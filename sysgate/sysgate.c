// sysgate: ptrace supervisor for system-call-boundary fault injection (x86_64 Linux).
//
//   sysgate [--watch <path-prefix>]... [--from-marker] [--log-exec]
//           (--count | --kill-at K [--tear P] | --pause-at K | --fail-at K [--errno E]) --log F -- cmd...
//
// Watched system calls of the ROOT process (all its threads) whose path argument or
// file descriptor refers to a path under a --watch prefix are numbered 1..N in the
// order they are entered.  --kill-at K: SIGKILL the root process (and everything it
// spawned) BEFORE call K executes; with --tear P and call K a write of length L, the
// write is shortened to floor(P*L) bytes (1 <= . < L), allowed to complete, then the
// process is killed.  --pause-at K: print "PAUSED K ..." on stdout before call K and
// freeze the process until a byte arrives on stdin.  --fail-at K [--errno E]: call K is not
// executed and returns -E (default EIO) to the process, which then runs on.  --from-marker: numbering starts
// when the process tries to open /verif-marker-begin.  --log-exec: every execve of a
// descendant process is logged as "EXEC <pid> <path>" (not numbered).  An attempt of the
// root process to open /verif-mark/<label> is logged as "MARK <label>" (phase labels).
// Log lines: "<k> <tid> <syscall> <path> <len>".
#define _GNU_SOURCE
#include <errno.h>
#include <fcntl.h>
#include <signal.h>
#include <stdio.h>
#include <stdlib.h>
#include <string.h>
#include <sys/ptrace.h>
#include <sys/socket.h>
#include <sys/syscall.h>
#include <sys/types.h>
#include <sys/uio.h>
#include <sys/un.h>
#include <sys/user.h>
#include <sys/wait.h>
#include <unistd.h>

#define MAXW 8
#define MAXFD 4096
#define MAXT 512

static const char *watch[MAXW];
static int nwatch;
static long kill_at = -1, pause_at = -1, fail_at = -1;
static int fail_errno = 5;
static int from_marker, armed = 1, log_exec, killed;
static pid_t others[MAXT]; static int nothers;
static double tear = -1;
static FILE *logf_;
static pid_t root;

struct th {
    pid_t tid;
    int insys;
    int pending_open; // openat in flight with watched path
    char path[512];
    int tearkill;
    int failwith; // errno to return from the system call in flight (it was replaced by an invalid one)
};
static struct th ths[MAXT];
static char fdpath[MAXFD][256]; // root process fd -> watched path ("" if not)
static long counter;

static struct th *getth(pid_t tid) {
    for (int i = 0; i < MAXT; i++)
        if (ths[i].tid == tid) return &ths[i];
    for (int i = 0; i < MAXT; i++)
        if (ths[i].tid == 0) {
            memset(&ths[i], 0, sizeof ths[i]);
            ths[i].tid = tid;
            return &ths[i];
        }
    fprintf(stderr, "sysgate: too many threads\n");
    exit(3);
}

static int readstr(pid_t tid, unsigned long addr, char *buf, size_t n) {
    struct iovec l = {buf, n - 1}, r = {(void *)addr, n - 1};
    ssize_t got = process_vm_readv(tid, &l, 1, &r, 1, 0);
    if (got <= 0) {
        // may cross page boundary into unmapped: read word-wise
        size_t i = 0;
        while (i < n - 1) {
            errno = 0;
            long w = ptrace(PTRACE_PEEKDATA, tid, addr + i, 0);
            if (errno) break;
            memcpy(buf + i, &w, sizeof w < n - 1 - i ? sizeof w : n - 1 - i);
            if (memchr(&w, 0, sizeof w)) break;
            i += sizeof w;
        }
        buf[n - 1] = 0;
        return 0;
    }
    buf[got] = 0;
    return 0;
}

static int watched(const char *p) {
    for (int i = 0; i < nwatch; i++)
        if (strncmp(p, watch[i], strlen(watch[i])) == 0) return 1;
    return 0;
}

static int same_tgid(pid_t tid) {
    char p[64], line[256];
    snprintf(p, sizeof p, "/proc/%d/status", tid);
    FILE *f = fopen(p, "r");
    if (!f) return 0;
    int tg = -1;
    while (fgets(line, sizeof line, f))
        if (sscanf(line, "Tgid: %d", &tg) == 1) break;
    fclose(f);
    return tg == root;
}

static void killall(void) {
    killed = 1;
    kill(root, SIGKILL);
    for (int i = 0; i < nothers; i++) if (others[i] > 0) kill(others[i], SIGKILL);
}

static void event(struct th *t, const char *name, const char *path, long len, struct user_regs_struct *regs) {
    if (!armed || killed) return;
    counter++;
    fprintf(logf_, "%ld %d %s %s %ld\n", counter, t->tid, name, path, len);
    fflush(logf_);
    if (counter == kill_at) {
        if (tear >= 0 && len > 1 && strncmp(name, "write", 5) == 0) {
            long nl = (long)(tear * len);
            if (nl < 1) nl = 1;
            if (nl >= len) nl = len - 1;
            regs->rdx = nl;
            ptrace(PTRACE_SETREGS, t->tid, 0, regs);
            t->tearkill = 1;
            fprintf(logf_, "TEAR %ld of %ld\n", nl, len);
            fflush(logf_);
            return;
        }
        fprintf(logf_, "KILL before %ld\n", counter);
        fflush(logf_);
        killall();
    }
    if (counter == fail_at) {
        // make this call fail: replace it by an invalid system call and patch the result at exit
        fprintf(logf_, "FAIL %ld errno=%d\n", counter, fail_errno);
        fflush(logf_);
        regs->orig_rax = -1;
        ptrace(PTRACE_SETREGS, t->tid, 0, regs);
        t->failwith = fail_errno;
    }
    if (counter == pause_at) {
        printf("PAUSED %ld %s %s\n", counter, name, path);
        fflush(stdout);
        char c;
        if (read(0, &c, 1) <= 0) { /* controller gone */
        }
    }
}

int main(int argc, char **argv) {
    int i = 1;
    const char *logname = "/dev/stderr";
    for (; i < argc; i++) {
        if (!strcmp(argv[i], "--watch")) watch[nwatch++] = argv[++i];
        else if (!strcmp(argv[i], "--kill-at")) kill_at = atol(argv[++i]);
        else if (!strcmp(argv[i], "--pause-at")) pause_at = atol(argv[++i]);
        else if (!strcmp(argv[i], "--tear")) tear = atof(argv[++i]);
        else if (!strcmp(argv[i], "--fail-at")) fail_at = atol(argv[++i]);
        else if (!strcmp(argv[i], "--errno")) fail_errno = atoi(argv[++i]);
        else if (!strcmp(argv[i], "--log")) logname = argv[++i];
        else if (!strcmp(argv[i], "--count")) { }
        else if (!strcmp(argv[i], "--from-marker")) { from_marker = 1; armed = 0; }
        else if (!strcmp(argv[i], "--log-exec")) log_exec = 1;
        else if (!strcmp(argv[i], "--")) { i++; break; }
        else break;
    }
    logf_ = fopen(logname, "w");
    root = fork();
    if (root == 0) {
        ptrace(PTRACE_TRACEME, 0, 0, 0);
        raise(SIGSTOP);
        execvp(argv[i], argv + i);
        perror("exec");
        _exit(127);
    }
    int st;
    waitpid(root, &st, 0);
    ptrace(PTRACE_SETOPTIONS, root, 0,
           PTRACE_O_TRACESYSGOOD | PTRACE_O_TRACECLONE | PTRACE_O_TRACEFORK | PTRACE_O_TRACEVFORK | PTRACE_O_TRACEEXEC | PTRACE_O_EXITKILL);
    ptrace(PTRACE_SYSCALL, root, 0, 0);
    int rootstatus = 0;
    for (;;) {
        pid_t tid = waitpid(-1, &st, __WALL);
        if (tid < 0) break;
        if (WIFEXITED(st) || WIFSIGNALED(st)) {
            struct th *t = getth(tid);
            t->tid = 0;
            /* gone and reaped: its number may belong to a stranger by the time killall() runs */
            for (int k = 0; k < nothers; k++) if (others[k] == tid) others[k] = 0;
            if (tid == root) {
                rootstatus = st;
            }
            continue;
        }
        if (!WIFSTOPPED(st)) continue;
        int sig = WSTOPSIG(st);
        struct th *t = getth(tid);
        if (tid != root) {
            int known = 0;
            for (int k = 0; k < nothers; k++) if (others[k] == tid) known = 1;
            if (!known && nothers < MAXT) others[nothers++] = tid;
        }
        if (killed) { kill(tid, SIGKILL); ptrace(PTRACE_CONT, tid, 0, SIGKILL); continue; }
        if (sig == (SIGTRAP | 0x80)) {
            struct user_regs_struct r;
            ptrace(PTRACE_GETREGS, tid, 0, &r);
            long nr = r.orig_rax;
            int isroot = same_tgid(tid);
            if (!t->insys) {
                t->insys = 1;
                t->pending_open = 0;
                if (isroot) {
                    char p[512] = "";
                    switch (nr) {
                    case SYS_openat:
                        readstr(tid, r.rsi, p, sizeof p);
                        if (from_marker && !armed && !strcmp(p, "/verif-marker-begin")) { armed = 1; fprintf(logf_, "MARKER\n"); fflush(logf_); }
                        if (!strncmp(p, "/verif-mark/", 12)) { fprintf(logf_, "MARK %s\n", p + 12); fflush(logf_); }
                        if (watched(p)) {
                            t->pending_open = 1;
                            strncpy(t->path, p, sizeof t->path - 1);
                            if ((r.rdx & (O_CREAT | O_TRUNC | O_WRONLY | O_RDWR | O_APPEND))) event(t, "openat-w", p, r.rdx, &r);
                        }
                        break;
                    case SYS_write:
                    case SYS_pwrite64:
                        if (r.rdi < MAXFD && fdpath[r.rdi][0]) event(t, "write", fdpath[r.rdi], r.rdx, &r);
                        break;
                    case SYS_fsync:
                    case SYS_fdatasync:
                        if (r.rdi < MAXFD && fdpath[r.rdi][0]) event(t, "fsync", fdpath[r.rdi], 0, &r);
                        break;
                    case SYS_close:
                        if (r.rdi < MAXFD && fdpath[r.rdi][0]) {
                            event(t, "close", fdpath[r.rdi], 0, &r);
                            fdpath[r.rdi][0] = 0;
                        }
                        break;
                    case SYS_unlinkat:
                        readstr(tid, r.rsi, p, sizeof p);
                        if (watched(p)) event(t, "unlinkat", p, 0, &r);
                        break;
                    case SYS_unlink:
                        readstr(tid, r.rdi, p, sizeof p);
                        if (watched(p)) event(t, "unlink", p, 0, &r);
                        break;
                    case SYS_renameat:
                    case SYS_renameat2:
                        readstr(tid, r.rsi, p, sizeof p);
                        if (watched(p)) event(t, "renameat", p, 0, &r);
                        break;
                    case SYS_rename:
                        readstr(tid, r.rdi, p, sizeof p);
                        if (watched(p)) event(t, "rename", p, 0, &r);
                        break;
                    case SYS_mkdirat:
                        readstr(tid, r.rsi, p, sizeof p);
                        if (watched(p)) event(t, "mkdirat", p, 0, &r);
                        break;
                    case SYS_bind:
                    case SYS_connect: {
                        struct sockaddr_un sa;
                        memset(&sa, 0, sizeof sa);
                        struct iovec l = {&sa, sizeof sa}, rr = {(void *)r.rsi, r.rdx < sizeof sa ? r.rdx : sizeof sa};
                        process_vm_readv(tid, &l, 1, &rr, 1, 0);
                        if (sa.sun_family == AF_UNIX && watched(sa.sun_path)) {
                            event(t, nr == SYS_bind ? "bind" : "connect", sa.sun_path, 0, &r);
                            if (r.rdi < MAXFD) strncpy(fdpath[r.rdi], sa.sun_path, 255);
                        }
                        break;
                    }
                    case SYS_accept:
                    case SYS_accept4:
                        if (r.rdi < MAXFD && fdpath[r.rdi][0]) event(t, "accept", fdpath[r.rdi], 0, &r);
                        break;
                    case SYS_listen:
                        if (r.rdi < MAXFD && fdpath[r.rdi][0]) event(t, "listen", fdpath[r.rdi], 0, &r);
                        break;
                    case SYS_ftruncate:
                        if (r.rdi < MAXFD && fdpath[r.rdi][0]) event(t, "ftruncate", fdpath[r.rdi], r.rsi, &r);
                        break;
                    case SYS_linkat:
                        readstr(tid, r.rsi, p, sizeof p);
                        if (watched(p)) event(t, "linkat", p, 0, &r);
                        break;
                    }
                } else if (nr == SYS_execve && log_exec) {
                    char p[512] = "";
                    readstr(tid, r.rdi, p, sizeof p);
                    fprintf(logf_, "EXEC %d %s\n", tid, p);
                    fflush(logf_);
                }
            } else {
                t->insys = 0;
                if (t->failwith) {
                    r.rax = -(long)t->failwith;
                    ptrace(PTRACE_SETREGS, tid, 0, &r);
                    t->failwith = 0;
                    t->pending_open = 0;
                }
                if (t->tearkill) {
                    fprintf(logf_, "KILL after torn write ret=%lld\n", (long long)r.rax);
                    fflush(logf_);
                    t->tearkill = 0;
                    killall();
                }
                if (isroot && t->pending_open && (long)r.rax >= 0 && r.rax < MAXFD) strncpy(fdpath[r.rax], t->path, 255);
                t->pending_open = 0;
            }
            ptrace(PTRACE_SYSCALL, tid, 0, 0);
        } else if (sig == SIGTRAP && (st >> 16)) {
            // ptrace event (clone/fork/exec): new child auto-attached
            ptrace(PTRACE_SYSCALL, tid, 0, 0);
        } else if (sig == SIGSTOP && !t->insys && tid != root) {
            // initial stop of a new thread/child
            ptrace(PTRACE_SYSCALL, tid, 0, 0);
        } else {
            ptrace(PTRACE_SYSCALL, tid, 0, sig == SIGTRAP ? 0 : sig);
        }
    }
    fprintf(logf_, "END count=%ld\n", counter);
    fclose(logf_);
    if (WIFSIGNALED(rootstatus)) return 128 + WTERMSIG(rootstatus);
    return WEXITSTATUS(rootstatus);
}
