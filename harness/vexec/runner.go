package vexec

import (
	"context"
	"fmt"
	"math/rand"
	"os"
	"path/filepath"
	"runtime"
	"sort"
	"strings"
	"sync"
	"sync/atomic"
	"syscall"
	"time"

	"github.com/ErdemOzgen/blackdagger/internal/agent"
	"github.com/ErdemOzgen/blackdagger/internal/client"
	"github.com/ErdemOzgen/blackdagger/internal/dag"
	"github.com/ErdemOzgen/blackdagger/internal/dag/scheduler"
	"github.com/ErdemOzgen/blackdagger/internal/logger"
	"github.com/ErdemOzgen/blackdagger/internal/persistence"
	dsclient "github.com/ErdemOzgen/blackdagger/internal/persistence/client"
	"github.com/ErdemOzgen/blackdagger/internal/persistence/model"
)

type HandlerSpec struct {
	Fail bool `json:"fail,omitempty"`
	// Hold: the handler does not complete at once but stays open until Case.Release
	Hold bool `json:"hold,omitempty"`
}

// StopSpec says how and at which instant a stop (or the timeout) lands.
type StopSpec struct {
	// Kind: signal | cancel | http | timeout
	Kind string `json:"kind"`
	// At: decision | beforeLaunch | launch | worker.beforeExec | retry.wait | repeat.wait | handlers
	At  string `json:"at"`
	Nth int    `json:"nth"` // occurrence of that instant (0-based)
}

// CaseSpec is the replayable description of one execution.
type CaseSpec struct {
	ID            string                  `json:"id"`
	Level         string                  `json:"level"` // sched | agent
	Steps         []*StepSpec             `json:"steps"`
	MaxActiveRuns int                     `json:"maxActiveRuns,omitempty"`
	DelayMs       int                     `json:"delayMs,omitempty"`
	Handlers      map[string]*HandlerSpec `json:"handlers,omitempty"` // onSuccess onFailure onCancel onExit
	TimeoutMs     int                     `json:"timeoutMs,omitempty"`
	Stop          *StopSpec               `json:"stop,omitempty"`
	Free          bool                    `json:"free,omitempty"`
	DecSeed       int64                   `json:"decSeed,omitempty"`
	Decisions     []int                   `json:"decisions,omitempty"`
	UseDecisions  bool                    `json:"useDecisions,omitempty"`
	Hold          bool                    `json:"hold,omitempty"` // every gate is held as long as the loop makes progress
	Dry           bool                    `json:"dry,omitempty"`
	DagPrecondBad bool                    `json:"dagPrecondUnmet,omitempty"`
	PauseUs       int                     `json:"pauseUs,omitempty"`
	MaxCleanUpMs  int                     `json:"maxCleanUpMs,omitempty"`
	Params        string                  `json:"params,omitempty"`
	NoDone        bool                    `json:"noDone,omitempty"`
	IterProb      int                     `json:"iterProb,omitempty"`   // % chance to take a decision at a nodeIter point (random mode)
	SlowDoneUs    int                     `json:"slowDoneUs,omitempty"` // scheduler level: the done-channel receiver takes this long per node
	InitEnv       map[string]string       `json:"initEnv,omitempty"`    // exported before the run, removed after it
	InitFiles     map[string]string       `json:"initFiles,omitempty"`  // written before the run, removed after it
	Retention     int                     `json:"-"`
}

type NodeFinal struct {
	Status     string    `json:"status"`
	RetryCount int       `json:"retryCount"`
	DoneCount  int       `json:"doneCount"`
	Log        string    `json:"log,omitempty"`
	StartedAt  time.Time `json:"-"`
	FinishedAt time.Time `json:"-"`
	Err        string    `json:"err,omitempty"`
}

// Outcome is everything the monitors read.
type Outcome struct {
	Events       []Event
	Final        map[string]NodeFinal
	HandlerFinal map[string]NodeFinal
	Status       string
	SchedErr     string
	SetupErr     string // graph construction / agent setup error
	Stuck        bool
	Hung         bool // run did not return within the bound after a stop
	Inconclusive string
	Taken        []int
	OptCounts    []int
	Online       []string
	Creates      int64
	MaxOpen      int
	HookHits     map[string]int
	StopSeq      int // event seq at which the stop was accepted, -1 if none
	StopInject   int // event seq at which the stop was issued (before fan-out), -1 if none
	StopInjected bool
	StopDropped  bool // POST /stop answered 200 but the stop was never fanned out (20 s)
	SignalReturn int  // event seq at which Agent.Signal returned (agent level), -1
	// agent level
	Dir          string
	LoadedParams []string
	DataDir      string
	LogDir       string
	DAG          *dag.DAG
	ReqID        string
	LastStatus   *model.Status // Agent.Status() after Run returned
	LiveChecks   int
	LiveBad      []string
	RunErr       string
	Lines        []*model.Status // every status the agent wrote (agent level, RecordWrites)
	WriteCount   int
	LateWrites   int
	LateText     []string
}

// Executions counts RUN_ENTER events per step.
func (o *Outcome) Executions() map[string]int {
	m := map[string]int{}
	for _, e := range o.Events {
		if e.Kind == "RUN_ENTER" {
			m[e.Step]++
		}
	}
	return m
}

// Decider chooses among n options (0..n-1).
type Decider interface{ Next(n int) int }

type randDecider struct{ r *rand.Rand }

func (d randDecider) Next(n int) int { return d.r.Intn(n) }

type listDecider struct {
	list []int
	i    int
}

func (d *listDecider) Next(n int) int {
	if d.i < len(d.list) {
		v := d.list[d.i]
		d.i++
		if v < n {
			return v
		}
		return n - 1
	}
	d.i++
	return 0
}

// Options for Run that are not part of the replayable spec.
type RunOpts struct {
	Scratch      string
	AtBarrier    func(c *Case, r *Runner) // called on the loop goroutine at quiescent decision points
	OnRunEnter   func(c *Case, step string, attempt int, deps map[string]scheduler.NodeState)
	RecordWrites bool
	WriteDelayAt int
	WriteDelay   time.Duration
	// DuringDelay is called while history write #WriteDelayAt of the run is held back (the
	// run's process is alive and has not recorded that status yet); n is the write's number.
	DuringDelay func(r *Runner, n int, st *model.Status)
	RetryTarget *model.Status
	RetryDAG    *dag.DAG
	Dir         string // reuse this case directory (retry of a recorded run)
	KeepDirs    bool
	HangBound   time.Duration
	Watchdog    time.Duration // wall-clock limit of the whole case (default 120 s); for runs the caller holds open on purpose
	Quiet       bool
}

// Runner holds the live handles of one run.
type Runner struct {
	Spec   *CaseSpec
	Case   *Case
	Sched  *scheduler.Scheduler
	Graph  *scheduler.ExecutionGraph
	Agent  *agent.Agent
	DAG    *dag.DAG
	Client client.Client
	Stores persistence.DataStores

	dec          Decider
	mu           sync.Mutex
	taken        []int
	optCounts    []int
	launchedIter int
	lastVec      string
	lastEvents   int
	sameIters    int
	stuck        atomic.Bool
	stopped      atomic.Bool // stop injected
	stopHost     string      // step whose own hook hosted the stop injection ("" if none)
	stopDropped  atomic.Bool // an accepted stop request was never fanned out
	finished     atomic.Bool
	aborted      atomic.Bool
	inconcl      atomic.Value
	hookCount    map[string]int
	decIndex     int
	stopSeq      int
	sigRet       int
	signalPass   chan struct{}
	passOnce     sync.Once
	deadline     time.Time
	opts         *RunOpts
	releasedIter bool
	liveChecks   int
	liveBad      []string
	pause        time.Duration
}

var quietLogger = logger.NewLogger(logger.NewLoggerArgs{Quiet: true})

func envName(caseID, step string) string {
	repl := func(r rune) rune {
		if (r >= 'a' && r <= 'z') || (r >= 'A' && r <= 'Z') || (r >= '0' && r <= '9') {
			return r
		}
		return '_'
	}
	return "VERIF_C_" + strings.Map(repl, caseID) + "_" + strings.Map(repl, step)
}

func handlerStepName(t string) string { return t }

// buildSteps creates dag.Step values (scheduler level).
func buildSteps(spec *CaseSpec, dir string) ([]dag.Step, map[string]*dag.Step, []*StepSpec) {
	var steps []dag.Step
	var all []*StepSpec
	for _, s := range spec.Steps {
		st := dag.Step{
			Name:           s.Name,
			Depends:        append([]string(nil), s.Depends...),
			ExecutorConfig: dag.ExecutorConfig{Type: "verif", Config: map[string]any{"case": spec.ID}},
			ContinueOn:     dag.ContinueOn{Failure: s.ContFail, Skipped: s.ContSkip},
			SignalOnStop:   s.SignalOnStop,
			Dir:            dir,
			Output:         s.OutputVar,
		}
		if s.RetryLimit > 0 || s.RetryMs > 0 {
			st.RetryPolicy = &dag.RetryPolicy{Limit: s.RetryLimit, Interval: time.Duration(s.RetryMs) * time.Millisecond}
		}
		if s.Repeat {
			st.RepeatPolicy = dag.RepeatPolicy{Repeat: true, Interval: time.Duration(s.RepeatMs) * time.Millisecond}
		}
		if s.SubWorkflow {
			st.SubWorkflow = &dag.SubWorkflow{Name: "child-of-" + s.Name}
		}
		if s.PrecondVar != "" || s.PrecondText != "" {
			st.Preconditions = append(st.Preconditions, dag.Condition{Condition: precondText(s), Expected: precondExpect(s)})
		} else if s.HasPrecond {
			for i := 0; i < precondN(s); i++ {
				st.Preconditions = append(st.Preconditions, dag.Condition{Condition: "$" + precondEnv(spec.ID, s.Name, i), Expected: precondWant(s)})
			}
		}
		if s.SetupFail {
			st.Stdout = filepath.Join(dir, "no-such-dir", "x", s.Name+".out")
		} else if s.TeardownFail {
			st.Stdout = "/dev/full"
		} else if s.StdoutFile {
			st.Stdout = filepath.Join(dir, s.Name+".stdout")
		}
		if s.StderrFile {
			st.Stderr = filepath.Join(dir, s.Name+".stderr")
		}
		steps = append(steps, st)
		all = append(all, s)
	}
	hs := map[string]*dag.Step{}
	for t, h := range spec.Handlers {
		name := handlerStepName(t)
		hs[t] = &dag.Step{Name: name, Dir: dir,
			ExecutorConfig: dag.ExecutorConfig{Type: "verif", Config: map[string]any{"case": spec.ID}}}
		ff := 0
		if h.Fail {
			ff = -1
		}
		all = append(all, &StepSpec{Name: name, FailFirst: ff, isHandler: true, Never: h.Hold})
	}
	return steps, hs, all
}

func precondN(s *StepSpec) int {
	if s.PrecondN > 1 {
		return s.PrecondN
	}
	return 1
}

func precondEnv(caseID, step string, i int) string {
	if i == 0 {
		return envName(caseID, step)
	}
	return fmt.Sprintf("%s_%d", envName(caseID, step), i)
}

func precondText(s *StepSpec) string {
	if s.PrecondText != "" {
		return s.PrecondText
	}
	return "$" + s.PrecondVar
}

// precondWant is the expected value of the step's generic conditions.
func precondWant(s *StepSpec) string {
	if s.PrecondEmpty {
		return ""
	}
	return "1"
}

func precondExpect(s *StepSpec) string {
	if s.PrecondExpect != "" {
		return s.PrecondExpect
	}
	return "1"
}

func setPrecondEnv(spec *CaseSpec) {
	for k, v := range spec.InitEnv {
		os.Setenv(k, v)
	}
	for k, v := range spec.InitFiles {
		_ = os.WriteFile(k, []byte(v), 0644)
	}
	for _, s := range spec.Steps {
		if s.HasPrecond && s.PrecondVar == "" && s.PrecondText == "" {
			for i := 0; i < precondN(s); i++ {
				v := precondWant(s)
				if s.PrecondUnmet && i == s.PrecondBadAt%precondN(s) {
					v = "0"
				}
				os.Setenv(precondEnv(spec.ID, s.Name, i), v)
			}
		}
	}
	if spec.DagPrecondBad {
		// three DAG-level conditions, the unmet one in a seed-determined position
		for i := 0; i < 3; i++ {
			v := "1"
			if i == int(spec.DecSeed%3+3)%3 {
				v = "0"
			}
			os.Setenv(precondEnv(spec.ID, "DAG", i), v)
		}
	}
}

func clearPrecondEnv(spec *CaseSpec) {
	for k := range spec.InitEnv {
		os.Unsetenv(k)
	}
	for k := range spec.InitFiles {
		os.Remove(k)
	}
	// captured outputs are exported by the product (os.Setenv) and would pile up over the
	// hundreds of thousands of cases of one shard process until no process can be exec'ed (E2BIG)
	for _, s := range spec.Steps {
		if s.OutputVar != "" {
			os.Unsetenv(s.OutputVar)
		}
	}
	// the product exports STEP_<node id>_DAG_EXECUTION_LOG_PATH for every node it sets up (node
	// ids grow for the life of the process: bounded for an agent, not for a shard of this harness)
	for _, e := range os.Environ() {
		if strings.HasPrefix(e, "STEP_") {
			if i := strings.IndexByte(e, '='); i > 0 && strings.HasSuffix(e[:i], "_DAG_EXECUTION_LOG_PATH") {
				os.Unsetenv(e[:i])
			}
		}
	}
	for _, s := range spec.Steps {
		if s.HasPrecond {
			for i := 0; i < precondN(s); i++ {
				os.Unsetenv(precondEnv(spec.ID, s.Name, i))
			}
		}
	}
	for i := 0; i < 3; i++ {
		os.Unsetenv(precondEnv(spec.ID, "DAG", i))
	}
}

// BuildYAML renders the case as a DAG definition (agent level).
func BuildYAML(spec *CaseSpec, dir string) string {
	var b strings.Builder
	q := func(s string) string { return fmt.Sprintf("%q", s) }
	if spec.Params != "" {
		fmt.Fprintf(&b, "params: %s\n", q(spec.Params))
	}
	if spec.MaxActiveRuns > 0 {
		fmt.Fprintf(&b, "maxActiveRuns: %d\n", spec.MaxActiveRuns)
	}
	if spec.DelayMs > 0 {
		// delaySec is in seconds; sub-second delays are patched after loading
	}
	fmt.Fprintf(&b, "maxCleanUpTimeSec: 1\n")
	fmt.Fprintf(&b, "histRetentionDays: 7\n")
	if spec.DagPrecondBad {
		fmt.Fprintf(&b, "preconditions:\n")
		for i := 0; i < 3; i++ {
			fmt.Fprintf(&b, "  - condition: %s\n    expected: \"1\"\n", q("$"+precondEnv(spec.ID, "DAG", i)))
		}
	}
	ex := func(ind string) {
		fmt.Fprintf(&b, "%sexecutor:\n%s  type: verif\n%s  config:\n%s    case: %s\n", ind, ind, ind, ind, q(spec.ID))
	}
	if len(spec.Handlers) > 0 {
		fmt.Fprintf(&b, "handlerOn:\n")
		yn := map[string]string{"onSuccess": "success", "onFailure": "failure", "onCancel": "cancel", "onExit": "exit"}
		var ts []string
		for t := range spec.Handlers {
			ts = append(ts, t)
		}
		sort.Strings(ts)
		for _, t := range ts {
			fmt.Fprintf(&b, "  %s:\n    command: \"true\"\n", yn[t])
			ex("    ")
		}
	}
	fmt.Fprintf(&b, "steps:\n")
	for _, s := range spec.Steps {
		fmt.Fprintf(&b, "  - name: %s\n    command: \"true\"\n", q(s.Name))
		if s.PadBytes > 0 {
			fmt.Fprintf(&b, "    description: %s\n", q(strings.Repeat("p", s.PadBytes)))
		}
		ex("    ")
		if len(s.Depends) > 0 {
			fmt.Fprintf(&b, "    depends:\n")
			for _, d := range s.Depends {
				fmt.Fprintf(&b, "      - %s\n", q(d))
			}
		}
		if s.ContFail || s.ContSkip {
			fmt.Fprintf(&b, "    continueOn:\n      failure: %v\n      skipped: %v\n", s.ContFail, s.ContSkip)
		}
		if s.RetryLimit > 0 {
			fmt.Fprintf(&b, "    retryPolicy:\n      limit: %d\n      intervalSec: 0\n", s.RetryLimit)
		}
		if s.Repeat {
			fmt.Fprintf(&b, "    repeatPolicy:\n      repeat: true\n      intervalSec: 0\n")
		}
		if s.PrecondVar != "" || s.PrecondText != "" {
			fmt.Fprintf(&b, "    preconditions:\n      - condition: %s\n        expected: %s\n", q(precondText(s)), q(precondExpect(s)))
		} else if s.HasPrecond {
			fmt.Fprintf(&b, "    preconditions:\n")
			for i := 0; i < precondN(s); i++ {
				fmt.Fprintf(&b, "      - condition: %s\n        expected: %s\n", q("$"+precondEnv(spec.ID, s.Name, i)), q(precondWant(s)))
			}
		}
		if s.SignalOnStop != "" {
			fmt.Fprintf(&b, "    signalOnStop: %s\n", s.SignalOnStop)
		}
		if s.OutputVar != "" {
			fmt.Fprintf(&b, "    output: %s\n", s.OutputVar)
		}
		if s.TeardownFail {
			fmt.Fprintf(&b, "    stdout: /dev/full\n")
		} else if s.SetupFail {
			fmt.Fprintf(&b, "    stdout: %s\n", q(filepath.Join(dir, "no-such-dir", "x", s.Name+".out")))
		}
	}
	return b.String()
}

func nodeFinal(d scheduler.NodeData) NodeFinal {
	nf := NodeFinal{Status: d.State.Status.String(), RetryCount: d.State.RetryCount, DoneCount: d.State.DoneCount,
		Log: d.State.Log, StartedAt: d.State.StartedAt, FinishedAt: d.State.FinishedAt}
	if d.State.Error != nil {
		nf.Err = d.State.Error.Error()
	}
	return nf
}

func (r *Runner) decide(n int) int {
	v := r.dec.Next(n)
	if v < 0 || v >= n {
		v = 0
	}
	r.mu.Lock()
	r.taken = append(r.taken, v)
	r.optCounts = append(r.optCounts, n)
	r.mu.Unlock()
	return v
}

func (r *Runner) stateVec() string {
	g := r.Case.Graph()
	if g == nil {
		return ""
	}
	var b strings.Builder
	for _, n := range g.Nodes() {
		st := n.State()
		fmt.Fprintf(&b, "%d.%d.%d;", st.Status, st.RetryCount, st.DoneCount)
	}
	return b.String()
}

const barrierLimit = 30 * time.Second

func (r *Runner) abort(reason string) {
	if r.aborted.Swap(true) {
		return
	}
	if reason != "" {
		r.inconcl.Store(reason)
	}
	// unblock everything so the process can go on with other cases
	if g := r.Case.Graph(); g != nil && r.Sched != nil {
		r.Sched.Cancel(g)
	}
	r.Case.AbortAll()
}

// decisionPoint runs on the scheduler's loop goroutine.
func (r *Runner) decisionPoint(kind string) {
	c := r.Case
	if r.aborted.Load() {
		return
	}
	if r.stopped.Load() {
		// after a stop the drainer owns the gates
		return
	}
	if !c.WaitQuiescent(barrierLimit) {
		r.abort("barrier watchdog fired at " + kind)
		return
	}
	if r.stopped.Load() || r.aborted.Load() {
		// a worker-side hook landed the stop while we waited at the barrier
		return
	}
	if kind == "loop" {
		defer func() {
			r.launchedIter = 0
			r.releasedIter = false
		}()
	}
	spec := r.Spec
	r.decIndex++
	if spec.Stop != nil && spec.Stop.At == "decision" && !r.stopped.Load() && r.decIndex-1 == spec.Stop.Nth {
		r.injectStop("decision")
		return
	}
	if spec.Stop != nil && !r.stopped.Load() && r.decIndex > 80 {
		// the planned instant never comes (e.g. a repeating step keeps the run alive)
		r.injectStop("fallback")
		return
	}
	if r.opts.AtBarrier != nil {
		r.opts.AtBarrier(c, r)
	}
	first := true
	for {
		opts := c.OpenSteps(true)
		progressed := r.launchedIter > 0 || r.releasedIter
		vec := ""
		if kind == "loop" && first {
			vec = r.stateVec()
			ev := c.EventCount()
			if vec != r.lastVec || ev != r.lastEvents {
				progressed = true
				r.sameIters = 0
			} else {
				r.sameIters++
			}
			r.lastVec, r.lastEvents = vec, ev
		}
		allowNothing := kind == "iter" || progressed || !first || len(opts) == 0
		if len(opts) == 0 {
			if kind == "loop" {
				active, _, nopen := c.Counts()
				if active == 0 && nopen == 0 && r.sameIters >= 3 {
					// fix-point: nothing alive, nothing changes, loop not finished
					r.stuck.Store(true)
					c.Log("CTL", "", "stuck")
					r.abort("")
					return
				}
				if active > 0 && nopen > 0 && r.sameIters >= 3 && spec.Stop != nil && !r.stopped.Load() {
					// only never-returning runs are left and the planned stop instant
					// was not reached: land the stop now
					r.injectStop("fallback")
				}
			}
			return
		}
		if kind == "iter" && first && !spec.UseDecisions {
			// random mode: only sometimes decide at per-node points
			p := spec.IterProb
			if p == 0 {
				p = 25
			}
			if r.decide(100) >= p {
				return
			}
		}
		n := len(opts)
		if allowNothing {
			n++
		}
		ch := 0
		if n > 1 {
			ch = r.decide(n)
		}
		if allowNothing {
			if ch == 0 {
				return
			}
			ch--
		}
		c.Release(opts[ch])
		r.releasedIter = true
		// the released worker must park again or exit before we go on
		waitGone(c, opts[ch])
		if !c.WaitQuiescent(barrierLimit) {
			r.abort("barrier watchdog fired after release")
			return
		}
		first = false
	}
}

// waitGone waits until the open run of step (the one just released) is closed.
func waitGone(c *Case, step string) {
	deadline := time.Now().Add(barrierLimit)
	c.mu.Lock()
	o := c.open[step]
	for o != nil && c.open[step] == o && time.Now().Before(deadline) {
		waitCond(c.cond, 20*time.Millisecond)
	}
	c.mu.Unlock()
}

func (r *Runner) onHook(c *Case, name string, arg any) {
	switch name {
	case "dagsched.start":
		if r.Sched == nil {
			// agent level: the scheduler is created inside Agent.Run
			r.Sched = c.Sched()
			r.Graph = c.Graph()
			if r.Sched != nil {
				r.Sched.VerifSetPause(r.pause)
			}
		}
	case "dagsched.nodeIter":
		if !r.Spec.Free {
			r.decisionPoint("iter")
		}
	case "dagsched.loop":
		if !r.Spec.Free {
			r.decisionPoint("loop")
		} else {
			r.freeLoop()
		}
	case "dagsched.beforeLaunch":
		// after the loop's cancel check (and the preconditions), before the node is marked running
		r.maybeStopAt("beforeLaunch", hookStep(arg))
	case "dagsched.launch":
		r.launchedIter++
		r.maybeStopAt("launch", hookStep(arg))
	case "dagsched.worker.beforeExec":
		r.maybeStopAt("worker.beforeExec", hookStep(arg))
	case "dagsched.retry.wait":
		r.maybeStopAt("retry.wait", hookStep(arg))
	case "dagsched.repeat.wait":
		r.maybeStopAt("repeat.wait", hookStep(arg))
	case "dagsched.handlers":
		r.maybeStopAt("handlers")
	case "dagsched.signal.pass":
		r.passOnce.Do(func() { close(r.signalPass) })
	}
}

func hookStep(arg any) string {
	if n, ok := arg.(*scheduler.Node); ok && n != nil {
		return nameOf(n)
	}
	return ""
}

func (r *Runner) freeLoop() {
	// free-running mode: only the stuck detector and time-based stop
	c := r.Case
	vec := r.stateVec()
	ev := c.EventCount()
	if vec == r.lastVec && ev == r.lastEvents {
		r.sameIters++
	} else {
		r.sameIters = 0
	}
	r.lastVec, r.lastEvents = vec, ev
	r.decIndex++
	if r.Spec.Stop != nil && !r.stopped.Load() && r.decIndex > 3000 {
		r.injectStop("fallback")
		return
	}
	active, _, nopen := c.Counts()
	if active == 0 && nopen == 0 && r.sameIters >= 2000 {
		r.stuck.Store(true)
		r.abort("")
	}
}

func (r *Runner) maybeStopAt(at string, host ...string) {
	spec := r.Spec
	if spec.Stop == nil || spec.Stop.At != at {
		return
	}
	r.mu.Lock()
	n := r.hookCount[at]
	r.hookCount[at]++
	r.mu.Unlock()
	if n == spec.Stop.Nth && !r.stopped.Load() {
		if len(host) > 0 {
			r.stopHost = host[0]
		}
		r.injectStop(at)
	}
}

// injectStop lands the stop synchronously at the current instant: it returns
// once the stop has been accepted and fanned out.
func (r *Runner) injectStop(where string) {
	if r.stopped.Swap(true) {
		return
	}
	c := r.Case
	spec := r.Spec
	// the step whose own hook hosts the injection is known to be exactly there
	c.Log("CTL", r.stopHost, "stop.inject:"+spec.Stop.Kind+"@"+where)
	g := c.Graph()
	switch {
	case spec.Stop.Kind == "timeout":
		// hold every gate until the DAG's deadline has passed
		d := time.Until(r.deadline) + 5*time.Millisecond
		if d > 0 {
			time.Sleep(d)
		}
		c.Log("CTL", "", "stop.accepted")
	case spec.Level == "sched" && spec.Stop.Kind == "cancel":
		r.Sched.Cancel(g)
		c.Log("CTL", "", "stop.accepted")
	case spec.Level == "sched":
		r.Sched.Signal(g, syscall.SIGTERM, nil, spec.Stop.Kind == "http")
		c.Log("CTL", "", "stop.accepted")
	case spec.Stop.Kind == "http":
		accepted := true
		if err := r.Client.Stop(r.DAG); err != nil {
			accepted = false
			c.Log("CTL", "", "stop.http.error:"+err.Error())
			r.inconcl.Store("http stop failed: " + err.Error())
		}
		if !r.waitPass() && accepted {
			// POST /stop was answered 200 and 20 s later nothing has been stopped
			r.inconcl.Store("")
			r.stopDropped.Store(true)
			c.Log("CTL", "", "stop.dropped")
		}
		c.Log("CTL", "", "stop.accepted")
	default: // agent signal
		go func() {
			r.Agent.Signal(syscall.SIGTERM)
			c.Log("CTL", "", "signal.returned")
		}()
		if !r.waitPass() {
			// the agent was signalled and 20 s later nothing has been stopped
			r.inconcl.Store("")
			r.stopDropped.Store(true)
			c.Log("CTL", "", "stop.dropped")
		}
		c.Log("CTL", "", "stop.accepted")
	}
	go r.drain()
}

func (r *Runner) waitPass() bool {
	select {
	case <-r.signalPass:
		return true
	case <-time.After(20 * time.Second):
		r.inconcl.Store("stop was not fanned out within 20 s")
		return false
	}
}

// drain completes, after a stop, the open runs that would end by themselves.
func (r *Runner) drain() {
	c := r.Case
	for !r.finished.Load() && !r.aborted.Load() {
		c.WaitQuiescent(time.Second)
		var opts []string
		c.mu.Lock()
		for s, o := range c.open {
			if o.never || o.handler || c.Steps[s].IgnoreTerm {
				continue
			}
			opts = append(opts, s)
		}
		c.mu.Unlock()
		if len(opts) == 0 {
			time.Sleep(500 * time.Microsecond)
			continue
		}
		sort.Strings(opts)
		c.Release(opts[0])
		waitGone(c, opts[0])
	}
}

var reqCounter atomic.Int64

// NewReqID returns a request id whose first 8 characters are unique in this process.
func NewReqID(spec *CaseSpec) string {
	n := reqCounter.Add(1)
	return fmt.Sprintf("%08x-verif-%d", uint32(n)*2654435761+uint32(os.Getpid()), n)
}

// Run executes one case and returns what was observed.
func Run(spec *CaseSpec, opts *RunOpts) *Outcome {
	out := runOnce(spec, opts)
	if strings.Contains(out.Inconclusive, "case watchdog") && (opts == nil || opts.Dir == "") {
		// The 120 s wall-clock watchdog is not a verdict. It has fired on a heavily
		// loaded machine for cases that take 0.2 s otherwise: dump the goroutines for
		// diagnosis and run the case once more; a second firing stays inconclusive.
		buf := make([]byte, 1<<20)
		n := runtime.Stack(buf, true)
		_ = os.WriteFile(filepath.Join(os.TempDir(), fmt.Sprintf("verif-watchdog-%s-%d.txt", spec.ID, os.Getpid())), buf[:n], 0644)
		WatchdogRetries.Add(1)
		out = runOnce(spec, opts)
	}
	return out
}

// WatchdogRetries counts cases re-run after the wall-clock watchdog fired.
var WatchdogRetries atomic.Int64

func runOnce(spec *CaseSpec, opts *RunOpts) *Outcome {
	Init()
	if opts == nil {
		opts = &RunOpts{}
	}
	out := &Outcome{StopSeq: -1, SignalReturn: -1, StopInject: -1}
	dir := opts.Dir
	var err error
	if dir == "" {
		dir, err = os.MkdirTemp(opts.Scratch, "case-")
	}
	if err != nil {
		out.Inconclusive = "mkdir: " + err.Error()
		return out
	}
	out.Dir = dir
	if !opts.KeepDirs && opts.Dir == "" {
		defer os.RemoveAll(dir)
	}
	steps, hsteps, all := buildSteps(spec, dir)
	c := NewCase(spec.ID, all)
	defer c.Close()
	r := &Runner{Spec: spec, Case: c, hookCount: map[string]int{}, signalPass: make(chan struct{}), opts: opts, stopSeq: -1, sigRet: -1}
	switch {
	case spec.UseDecisions:
		r.dec = &listDecider{list: spec.Decisions}
	default:
		r.dec = randDecider{rand.New(rand.NewSource(spec.DecSeed))}
	}
	c.OnHook = r.onHook
	c.OnRunEnter = opts.OnRunEnter
	if spec.Free {
		fr := rand.New(rand.NewSource(spec.DecSeed ^ 0x5eed))
		var frmu sync.Mutex
		c.AutoRelease = func(step string, att int) time.Duration {
			frmu.Lock()
			defer frmu.Unlock()
			return time.Duration(fr.Intn(2000)) * time.Microsecond
		}
	}
	setPrecondEnv(spec)
	defer clearPrecondEnv(spec)

	pause := time.Duration(spec.PauseUs) * time.Microsecond
	bound := opts.HangBound
	if bound == 0 {
		bound = 40 * time.Second
	}

	r.pause = pause
	runDone := make(chan struct{})
	var schedErr error
	if spec.Level == "agent" {
		if e := r.runAgent(dir, out, pause, runDone, &schedErr); e != "" {
			out.SetupErr = e
			return r.finish(out, nil)
		}
	} else {
		g, err := scheduler.NewExecutionGraph(quietLogger, steps...)
		if err != nil {
			out.SetupErr = err.Error()
			return r.finish(out, nil)
		}
		c.SetGraph(g)
		cfg := &scheduler.Config{LogDir: filepath.Join(dir, "logs"), Logger: quietLogger, MaxActiveRuns: spec.MaxActiveRuns,
			Timeout: time.Duration(spec.TimeoutMs) * time.Millisecond, Delay: time.Duration(spec.DelayMs) * time.Millisecond,
			Dry: spec.Dry, ReqID: NewReqID(spec),
			OnExit: hsteps["onExit"], OnSuccess: hsteps["onSuccess"], OnFailure: hsteps["onFailure"], OnCancel: hsteps["onCancel"]}
		sc := scheduler.New(cfg)
		sc.VerifSetPause(pause)
		r.Sched, r.Graph = sc, g
		d := &dag.DAG{Name: spec.ID, Location: filepath.Join(dir, spec.ID+".yaml")}
		ctx := dag.NewContext(context.Background(), d, nil, cfg.ReqID, filepath.Join(dir, "sched.log"))
		r.deadline = time.Now().Add(cfg.Timeout)
		go func() {
			defer close(runDone)
			var done chan *scheduler.Node
			if !spec.NoDone {
				done = make(chan *scheduler.Node)
				go func() {
					for range done {
						// the receiver of the agent writes the status file for every node it is handed
						if spec.SlowDoneUs > 0 {
							time.Sleep(time.Duration(spec.SlowDoneUs) * time.Microsecond)
						}
					}
				}()
				defer close(done)
			}
			schedErr = sc.Schedule(ctx, g, done)
		}()
	}

	// wait for the run to return
	wd := 120 * time.Second
	if opts.Watchdog > 0 {
		wd = opts.Watchdog
	}
	watchdog := time.NewTimer(wd)
	defer watchdog.Stop()
	var hangTimer <-chan time.Time
	tick := time.NewTicker(2 * time.Millisecond)
	defer tick.Stop()
wait:
	for {
		select {
		case <-runDone:
			break wait
		case <-watchdog.C:
			r.abort(fmt.Sprintf("case watchdog (%v) fired", wd))
			select {
			case <-runDone:
			case <-time.After(10 * time.Second):
			}
			break wait
		case <-hangTimer:
			out.Hung = true
			c.Log("CTL", "", "hung")
			r.abort("")
			select {
			case <-runDone:
			case <-time.After(10 * time.Second):
				r.inconcl.Store("run did not return even after abort")
			}
			break wait
		case <-tick.C:
			if hangTimer == nil && r.stopped.Load() {
				hangTimer = time.After(bound)
			}
		}
	}
	r.finished.Store(true)
	if schedErr != nil {
		out.SchedErr = schedErr.Error()
	}
	return r.finish(out, schedErr)
}

func (r *Runner) finish(out *Outcome, _ error) *Outcome {
	c := r.Case
	out.Events = c.Events()
	out.Online = c.Online()
	out.MaxOpen = c.MaxOpen()
	out.Creates = c.Creates()
	out.HookHits = c.HookHits()
	out.Taken, out.OptCounts = r.taken, r.optCounts
	out.Stuck = r.stuck.Load()
	out.StopInjected = r.stopped.Load()
	if v := r.inconcl.Load(); v != nil {
		out.Inconclusive = v.(string)
	}
	out.StopDropped = r.stopDropped.Load()
	out.LiveChecks, out.LiveBad = r.liveChecks, r.liveBad
	for _, e := range out.Events {
		if e.Kind == "CTL" && e.Info == "stop.accepted" && out.StopSeq < 0 {
			out.StopSeq = e.Seq
		}
		if e.Kind == "CTL" && strings.HasPrefix(e.Info, "stop.inject") && out.StopInject < 0 {
			out.StopInject = e.Seq
		}
		if e.Kind == "CTL" && e.Info == "signal.returned" {
			out.SignalReturn = e.Seq
		}
	}
	out.Final = map[string]NodeFinal{}
	out.HandlerFinal = map[string]NodeFinal{}
	if g := c.Graph(); g != nil {
		for _, n := range g.Nodes() {
			d := n.Data()
			out.Final[d.Step.Name] = nodeFinal(d)
		}
		if r.Sched != nil {
			out.Status = r.Sched.Status(g).String()
			for _, t := range []dag.HandlerType{dag.HandlerOnSuccess, dag.HandlerOnFailure, dag.HandlerOnCancel, dag.HandlerOnExit} {
				if hn := r.Sched.HandlerNode(t); hn != nil {
					out.HandlerFinal[string(t)] = nodeFinal(hn.Data())
				}
			}
		}
	}
	return out
}

// AddLive lets AtBarrier callbacks record live-status observations.
func (r *Runner) AddLive(bad string) {
	r.liveChecks++
	if bad != "" {
		r.liveBad = append(r.liveBad, bad)
	}
}

// ---- agent level ------------------------------------------------------------

type recordingStores struct {
	persistence.DataStores
	hs *recordingHistory
}

func (s *recordingStores) HistoryStore() persistence.HistoryStore { return s.hs }

type recordingHistory struct {
	persistence.HistoryStore
	mu       sync.Mutex
	lines    []*model.Status
	keep     bool
	n        int
	delayAt  int // 1-based number of the Write call that is delayed (0 = none)
	delay    time.Duration
	during   func(n int, st *model.Status)
	closed   bool
	late     int // Write calls that arrived after Close
	lateText []string
}

func (h *recordingHistory) Write(st *model.Status) error {
	h.mu.Lock()
	h.n++
	n := h.n
	if h.keep {
		// keep a deep copy through JSON, exactly what the store persists
		if b, err := st.ToJSON(); err == nil {
			if cp, err := model.StatusFromJSON(string(b)); err == nil {
				h.lines = append(h.lines, cp)
			}
		}
	}
	h.mu.Unlock()
	if n == h.delayAt && h.delay > 0 {
		// injected delay at the store boundary (a slow disk / descheduled goroutine)
		if h.during != nil {
			h.during(n, st)
		}
		time.Sleep(h.delay)
	}
	h.mu.Lock()
	if h.closed {
		// forwarding would hit the closed store (nil writer): record instead
		h.late++
		h.lateText = append(h.lateText, fmt.Sprintf("write #%d (status %q) arrived after Close", n, st.Status.String()))
		h.mu.Unlock()
		return nil
	}
	h.mu.Unlock()
	return h.HistoryStore.Write(st)
}

func (h *recordingHistory) Close() error {
	h.mu.Lock()
	h.closed = true
	h.mu.Unlock()
	return h.HistoryStore.Close()
}

func (r *Runner) runAgent(dir string, out *Outcome, pause time.Duration, runDone chan struct{}, schedErr *error) string {
	spec := r.Spec
	dagsDir := filepath.Join(dir, "dags")
	dataDir := filepath.Join(dir, "data")
	logDir := filepath.Join(dir, "logs")
	_ = os.MkdirAll(dagsDir, 0755)
	_ = os.MkdirAll(logDir, 0755)
	out.DataDir, out.LogDir = dataDir, logDir
	var stores persistence.DataStores = dsclient.NewDataStores(dagsDir, dataDir, filepath.Join(dir, "suspend"), dsclient.DataStoreOptions{})
	rec := &recordingHistory{HistoryStore: stores.HistoryStore(), keep: r.opts.RecordWrites,
		delayAt: r.opts.WriteDelayAt, delay: r.opts.WriteDelay}
	if r.opts.DuringDelay != nil {
		rec.during = func(n int, st *model.Status) { r.opts.DuringDelay(r, n, st) }
	}
	stores = &recordingStores{DataStores: stores, hs: rec}
	cli := client.New(stores, "/bin/false", dir, quietLogger)
	r.Client, r.Stores = cli, stores
	var d *dag.DAG
	if r.opts.RetryDAG != nil {
		d = r.opts.RetryDAG
	} else {
		file := filepath.Join(dagsDir, spec.ID+".yaml")
		if err := os.WriteFile(file, []byte(BuildYAML(spec, dir)), 0644); err != nil {
			return "write dag: " + err.Error()
		}
		var err error
		params := spec.Params
		if r.opts.RetryTarget != nil {
			// as cmd/retry.go does: reload with the recorded parameter string
			params = r.opts.RetryTarget.Params
		}
		d, err = dag.Load("", file, params)
		if err != nil {
			return "load: " + err.Error()
		}
		out.LoadedParams = append([]string(nil), d.Params...)
	}
	d.Delay = time.Duration(spec.DelayMs) * time.Millisecond
	if spec.TimeoutMs > 0 {
		d.Timeout = time.Duration(spec.TimeoutMs) * time.Millisecond
	}
	if spec.MaxCleanUpMs > 0 {
		d.MaxCleanUpTime = time.Duration(spec.MaxCleanUpMs) * time.Millisecond
	}
	r.DAG = d
	out.DAG = d
	reqID := NewReqID(spec)
	out.ReqID = reqID
	logFile := filepath.Join(logDir, "agent_"+spec.ID+".log")
	_ = os.WriteFile(logFile, nil, 0644)
	a := agent.New(reqID, d, quietLogger, logDir, logFile, cli, stores, &agent.Options{Dry: spec.Dry, RetryTarget: r.opts.RetryTarget})
	r.Agent = a
	// The scheduler is created inside Agent.Run; its pause is set from the
	// first hook (see onHookAgent) — hooks give us the graph, not the scheduler,
	// so the default 100 ms pause stays at agent level unless patched below.
	r.deadline = time.Now().Add(d.Timeout)
	go func() {
		defer close(runDone)
		err := a.Run(context.Background())
		*schedErr = err
		if err != nil {
			out.RunErr = err.Error()
		}
		func() {
			defer func() { _ = recover() }()
			out.LastStatus = a.Status()
		}()
		// give a delayed writer the chance to show up (bounded by the injected delay)
		if rec.delay > 0 {
			time.Sleep(rec.delay + 20*time.Millisecond)
		}
		rec.mu.Lock()
		out.Lines = rec.lines
		out.WriteCount = rec.n
		out.LateWrites = rec.late
		out.LateText = append([]string(nil), rec.lateText...)
		rec.mu.Unlock()
	}()
	return ""
}
