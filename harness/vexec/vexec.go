// Package vexec is engine A: the real step scheduler / agent driven through a
// scripted in-process executor ("verif") registered in the public executor
// registry, with a controller that decides interleavings at verifhook points.
//
// Lock order: the code under test calls into this package with a node lock
// held (Node.signal -> Kill, Node.setupExec -> creator). Therefore no function
// here may take a node lock (Node.State/Data) while holding Case.mu.
package vexec

import (
	"context"
	"errors"
	"fmt"
	"io"
	"os"
	"sort"
	"sync"
	"sync/atomic"
	"syscall"
	"time"

	"github.com/ErdemOzgen/blackdagger/internal/dag"
	"github.com/ErdemOzgen/blackdagger/internal/dag/executor"
	"github.com/ErdemOzgen/blackdagger/internal/dag/scheduler"
	"github.com/ErdemOzgen/blackdagger/internal/verifhook"
)

// StepSpec is the JSON-serialisable description of one scripted step.
type StepSpec struct {
	Name         string   `json:"name"`
	Depends      []string `json:"depends,omitempty"`
	ContFail     bool     `json:"contFail,omitempty"`
	ContSkip     bool     `json:"contSkip,omitempty"`
	RetryLimit   int      `json:"retryLimit,omitempty"`
	RetryMs      int      `json:"retryMs,omitempty"`
	Repeat       bool     `json:"repeat,omitempty"`
	RepeatMs     int      `json:"repeatMs,omitempty"`
	HasPrecond   bool     `json:"hasPrecond,omitempty"`
	PrecondUnmet bool     `json:"precondUnmet,omitempty"`
	PrecondN     int      `json:"precondN,omitempty"`     // number of conditions in the list (0 = 1)
	PrecondBadAt int      `json:"precondBadAt,omitempty"` // index of the unmet condition when PrecondUnmet
	FailFirst    int      `json:"failFirst,omitempty"`    // fail the first k attempts; -1 = always
	IgnoreTerm   bool     `json:"ignoreTerm,omitempty"`
	Never        bool     `json:"never,omitempty"` // never returns by itself
	SignalOnStop string   `json:"signalOnStop,omitempty"`
	OutBytes     int      `json:"outBytes,omitempty"`
	ErrBytes     int      `json:"errBytes,omitempty"`
	SetupFail    bool     `json:"setupFail,omitempty"`    // stdout redirected into a non-existent directory
	PadBytes     int      `json:"padBytes,omitempty"`     // agent level: a description of that many bytes (a big definition makes a big status document)
	SubWorkflow  bool     `json:"subWorkflow,omitempty"`  // scheduler level: the step is marked as a sub-workflow call (run: child), still executed by the scripted executor
	TeardownFail bool     `json:"teardownFail,omitempty"` // stdout redirected to /dev/full: the flush at teardown fails (ENOSPC)
	OutputVar    string   `json:"outputVar,omitempty"`
	ChunkSizes   []int    `json:"chunks,omitempty"`
	StdoutFile   bool     `json:"stdoutFile,omitempty"`
	StderrFile   bool     `json:"stderrFile,omitempty"`
	// PrecondVar: the step's precondition is the single condition `$<PrecondVar>` == PrecondExpect
	// (default "1"), a text it may share with other steps; HasPrecond / PrecondUnmet still say
	// what the truth is at the time the step becomes ready (known by construction).
	PrecondVar    string `json:"precondVar,omitempty"`
	PrecondExpect string `json:"precondExpect,omitempty"`
	// PrecondText, if set, is the raw condition text instead of `$<PrecondVar>` (e.g. a
	// command substitution reading a file).
	PrecondText string `json:"precondText,omitempty"`
	// PrecondEmpty: the generic conditions of the step (HasPrecond) expect the EMPTY value: a met
	// condition compares an empty variable with `expected: ""`, an unmet one a non-empty variable
	PrecondEmpty bool `json:"precondEmpty,omitempty"`
	// SetEnv is exported, SetFile written, when the step's run ends (state produced by the run itself).
	SetEnv    map[string]string `json:"setEnv,omitempty"`
	SetFile   map[string]string `json:"setFile,omitempty"`
	isHandler bool
}

// Fails reports whether the given attempt (1-based) fails by script.
func (s *StepSpec) Fails(attempt int) bool {
	if s.FailFirst < 0 {
		return true
	}
	return attempt <= s.FailFirst
}

// Event is one entry of a case's globally ordered event log.
type Event struct {
	Seq     int    `json:"seq"`
	Kind    string `json:"kind"` // RUN_ENTER RUN_EXIT RUN_REFUSED KILL HOOK CTL
	Step    string `json:"step,omitempty"`
	Attempt int    `json:"attempt,omitempty"`
	Info    string `json:"info,omitempty"`
}

func (e Event) String() string {
	return fmt.Sprintf("%d:%s(%s#%d %s)", e.Seq, e.Kind, e.Step, e.Attempt, e.Info)
}

type openRun struct {
	step    string
	attempt int
	release chan string
	kill    chan os.Signal
	never   bool
	handler bool
}

// Case is the live state of one execution.
type Case struct {
	ID    string
	Steps map[string]*StepSpec // by step name, handlers included

	mu         sync.Mutex
	cond       *sync.Cond
	events     []Event
	attempts   map[string]int
	open       map[string]*openRun
	active     int // workers launched and not yet exited
	parked     int // workers blocked in a gate
	maxOpen    int
	online     []string // online monitor reports
	nodes      []*scheduler.Node
	graph      *scheduler.ExecutionGraph
	sched      *scheduler.Scheduler
	byName     map[string]*scheduler.Node
	hookHits   map[string]int
	retrySleep map[string]bool
	creates    atomic.Int64

	// OnHook is the controller. It is called without c.mu held.
	OnHook func(c *Case, name string, arg any)
	// OnRunEnter is called under c.mu right after RUN_ENTER was logged; deps
	// holds the dependency states read just before.
	OnRunEnter func(c *Case, step string, attempt int, deps map[string]scheduler.NodeState)
	// AutoRelease: if set, a gate is released by a timer after the returned
	// delay (free-running mode). Negative = hold.
	AutoRelease func(step string, attempt int) time.Duration
	// HandlerImmediate: handler runs (which execute on the scheduler goroutine
	// itself) complete at once with their scripted outcome.
	HandlerImmediate bool
}

var (
	cases     sync.Map // id → *Case
	nodeMap   sync.Map // *scheduler.Node → *Case
	nodeNames sync.Map // *scheduler.Node → string
)

func NewCase(id string, steps []*StepSpec) *Case {
	c := &Case{ID: id, Steps: map[string]*StepSpec{}, attempts: map[string]int{}, open: map[string]*openRun{},
		byName: map[string]*scheduler.Node{}, hookHits: map[string]int{}, retrySleep: map[string]bool{}, HandlerImmediate: true}
	c.cond = sync.NewCond(&c.mu)
	for _, s := range steps {
		c.Steps[s.Name] = s
	}
	cases.Store(id, c)
	return c
}

// Close unregisters the case.
func (c *Case) Close() {
	cases.Delete(c.ID)
	c.mu.Lock()
	ns := c.nodes
	c.mu.Unlock()
	for _, n := range ns {
		nodeMap.Delete(n)
		nodeNames.Delete(n)
	}
}

func (c *Case) log(kind, step string, attempt int, info string) {
	c.events = append(c.events, Event{Seq: len(c.events), Kind: kind, Step: step, Attempt: attempt, Info: info})
}

// Log appends a controller event.
func (c *Case) Log(kind, step, info string) {
	c.mu.Lock()
	c.log(kind, step, 0, info)
	c.mu.Unlock()
}

func (c *Case) Events() []Event {
	c.mu.Lock()
	defer c.mu.Unlock()
	return append([]Event(nil), c.events...)
}

func (c *Case) EventCount() int {
	c.mu.Lock()
	defer c.mu.Unlock()
	return len(c.events)
}

func (c *Case) Online() []string {
	c.mu.Lock()
	defer c.mu.Unlock()
	return append([]string(nil), c.online...)
}

// ReportOnline records an online monitor report; call under c.mu (OnRunEnter).
func (c *Case) ReportOnline(s string) { c.online = append(c.online, s) }

// Creates is the number of executors created for this case.
func (c *Case) Creates() int64 { return c.creates.Load() }

func (c *Case) MaxOpen() int {
	c.mu.Lock()
	defer c.mu.Unlock()
	return c.maxOpen
}

func (c *Case) HookHits() map[string]int {
	c.mu.Lock()
	defer c.mu.Unlock()
	out := map[string]int{}
	for k, v := range c.hookHits {
		out[k] = v
	}
	return out
}

// Graph returns the execution graph once it is known (captured from hooks).
func (c *Case) Graph() *scheduler.ExecutionGraph {
	c.mu.Lock()
	defer c.mu.Unlock()
	return c.graph
}

// Sched returns the scheduler captured at dagsched.start.
func (c *Case) Sched() *scheduler.Scheduler {
	c.mu.Lock()
	defer c.mu.Unlock()
	return c.sched
}

func (c *Case) SetGraph(g *scheduler.ExecutionGraph) {
	c.mu.Lock()
	same := c.graph == g
	c.mu.Unlock()
	if same {
		return
	}
	nodes := g.Nodes()
	names := make([]string, len(nodes))
	for i, n := range nodes {
		names[i] = nameOf(n)
	}
	c.mu.Lock()
	c.graph = g
	c.nodes = nodes
	for i, n := range nodes {
		c.byName[names[i]] = n
		nodeMap.Store(n, c)
	}
	c.mu.Unlock()
}

func nameOf(n *scheduler.Node) string {
	if v, ok := nodeNames.Load(n); ok {
		return v.(string)
	}
	nm := n.Data().Step.Name
	nodeNames.Store(n, nm)
	return nm
}

// DepStates reads, through the public locked accessor, the state of the named
// steps. It must be called WITHOUT c.mu held.
func (c *Case) DepStates(steps []string) map[string]scheduler.NodeState {
	if len(steps) == 0 {
		return nil
	}
	c.mu.Lock()
	ns := make([]*scheduler.Node, len(steps))
	for i, s := range steps {
		ns[i] = c.byName[s]
	}
	c.mu.Unlock()
	out := map[string]scheduler.NodeState{}
	for i, n := range ns {
		if n != nil {
			out[steps[i]] = n.State()
		}
	}
	return out
}

// OpenCountLocked returns the number of open non-handler runs and of steps
// sleeping out a retry interval. Call under c.mu (from OnRunEnter).
func (c *Case) OpenCountLocked() (open, retrySleepers int) {
	for _, o := range c.open {
		if !o.handler {
			open++
		}
	}
	return open, len(c.retrySleep)
}

// IsOpenLocked reports whether step has an open run. Call under c.mu.
func (c *Case) IsOpenLocked(step string) bool { return c.open[step] != nil }

func (c *Case) openStepsLocked(releasableOnly bool) []string {
	var out []string
	for s, o := range c.open {
		if releasableOnly && (o.never || o.handler) {
			continue
		}
		out = append(out, s)
	}
	sort.Strings(out)
	return out
}

// OpenSteps returns the names of steps with an open Run, sorted.
func (c *Case) OpenSteps(releasableOnly bool) []string {
	c.mu.Lock()
	defer c.mu.Unlock()
	return c.openStepsLocked(releasableOnly)
}

// WaitQuiescent blocks until every live worker is parked in a gate or has
// exited. Returns false on watchdog expiry (wall clock; inconclusive only).
func (c *Case) WaitQuiescent(limit time.Duration) bool {
	deadline := time.Now().Add(limit)
	c.mu.Lock()
	defer c.mu.Unlock()
	for c.active != c.parked {
		if time.Now().After(deadline) {
			return false
		}
		waitCond(c.cond, 20*time.Millisecond)
	}
	return true
}

func waitCond(cd *sync.Cond, d time.Duration) {
	t := time.AfterFunc(d, cd.Broadcast)
	cd.Wait()
	t.Stop()
}

// Counts reports the instantaneous counts.
func (c *Case) Counts() (active, parked, open int) {
	c.mu.Lock()
	defer c.mu.Unlock()
	return c.active, c.parked, len(c.open)
}

// Release completes the open run of step with its scripted outcome.
func (c *Case) Release(step string) bool {
	c.mu.Lock()
	o := c.open[step]
	if o != nil {
		c.log("CTL", step, o.attempt, "release")
	}
	c.mu.Unlock()
	if o == nil {
		return false
	}
	select {
	case o.release <- "script":
		return true
	default:
		return false
	}
}

// AbortAll makes every open (and future) gate return at once.
func (c *Case) AbortAll() {
	c.mu.Lock()
	c.AutoRelease = func(string, int) time.Duration { return 0 }
	var rs []*openRun
	for _, o := range c.open {
		rs = append(rs, o)
	}
	c.mu.Unlock()
	for _, o := range rs {
		select {
		case o.kill <- syscall.SIGKILL:
		default:
		}
	}
}

// ---- hook dispatch --------------------------------------------------------

func caseOfNode(n *scheduler.Node) *Case {
	if v, ok := nodeMap.Load(n); ok {
		return v.(*Case)
	}
	cfg := n.Data().Step.ExecutorConfig.Config
	if cfg == nil {
		return nil
	}
	id, _ := cfg["case"].(string)
	if v, ok := cases.Load(id); ok {
		c := v.(*Case)
		nodeMap.Store(n, c)
		return c
	}
	return nil
}

func dispatch(name string, arg any) {
	var c *Case
	nm := ""
	switch a := arg.(type) {
	case *scheduler.Node:
		c = caseOfNode(a)
		if c != nil {
			nm = nameOf(a)
		}
	case *scheduler.ExecutionGraph:
		ns := a.Nodes()
		if len(ns) > 0 {
			c = caseOfNode(ns[0])
		}
		if c != nil {
			c.SetGraph(a)
		}
	case [2]any:
		g, _ := a[1].(*scheduler.ExecutionGraph)
		if g != nil && len(g.Nodes()) > 0 {
			c = caseOfNode(g.Nodes()[0])
		}
		if c != nil {
			c.SetGraph(g)
			c.mu.Lock()
			c.sched, _ = a[0].(*scheduler.Scheduler)
			c.mu.Unlock()
		}
	}
	if c == nil {
		if globalHook != nil {
			globalHook(name, arg)
		}
		return
	}
	c.mu.Lock()
	c.hookHits[name]++
	switch name {
	case "dagsched.launch":
		c.active++
		c.log("HOOK", nm, 0, "launch")
		c.cond.Broadcast()
	case "dagsched.worker.exit":
		c.active--
		c.log("HOOK", nm, 0, "worker.exit")
		c.cond.Broadcast()
	case "dagsched.retry.wait", "dagsched.repeat.wait", "dagsched.worker.beforeExec", "dagsched.retry.waited":
		c.log("HOOK", nm, 0, name[len("dagsched."):])
		if name == "dagsched.retry.wait" {
			c.retrySleep[nm] = true
		} else if name == "dagsched.retry.waited" {
			delete(c.retrySleep, nm)
		}
	case "dagsched.handlers":
		c.log("HOOK", "", 0, "handlers")
	case "dagsched.signal.pass":
		c.log("HOOK", "", 0, "signal.pass")
	}
	h := c.OnHook
	c.mu.Unlock()
	if h != nil {
		h(c, name, arg)
	}
}

var globalHook func(name string, arg any)

// SetGlobalHook installs a callback for hook points that do not belong to a
// scripted case (e.g. cmdexec.beforeStart of real command steps).
func SetGlobalHook(f func(name string, arg any)) { globalHook = f }

// ---- the executor ---------------------------------------------------------

type exec struct {
	c      *Case
	spec   *StepSpec
	ctx    context.Context
	stdout io.Writer
	stderr io.Writer
	mu     sync.Mutex
	run    *openRun
}

func (e *exec) SetStdout(w io.Writer) { e.stdout = w }
func (e *exec) SetStderr(w io.Writer) { e.stderr = w }

// Kill is called with the node lock held (Node.signal). Taking c.mu here is
// safe because nothing in this package takes a node lock while holding c.mu.
func (e *exec) Kill(sig os.Signal) error {
	e.mu.Lock()
	r := e.run
	e.mu.Unlock()
	e.c.mu.Lock()
	dead := r != nil && e.c.open[e.spec.Name] != r
	info := sigName(sig)
	if r == nil || dead {
		info += "|lost" // reached no process (not started yet / already gone)
	}
	e.c.log("KILL", e.spec.Name, e.c.attempts[e.spec.Name], info)
	e.c.mu.Unlock()
	if r == nil {
		// process "not started yet": like the command executor, the signal is lost
		return nil
	}
	if dead {
		// like kill(2) on the process group of a process that has exited (a
		// failed attempt waiting for its retry): the command executor returns ESRCH
		return syscall.ESRCH
	}
	select {
	case r.kill <- sig:
	default:
	}
	return nil
}

func sigName(sig os.Signal) string {
	if s, ok := sig.(syscall.Signal); ok {
		switch s {
		case syscall.SIGTERM:
			return "SIGTERM"
		case syscall.SIGKILL:
			return "SIGKILL"
		case syscall.SIGINT:
			return "SIGINT"
		case syscall.SIGHUP:
			return "SIGHUP"
		case syscall.SIGUSR1:
			return "SIGUSR1"
		case syscall.SIGQUIT:
			return "SIGQUIT"
		}
		return fmt.Sprintf("SIG%d", int(s))
	}
	return sig.String()
}

var errScripted = errors.New("scripted failure")

// OutByte / ErrByte give the byte a scripted step writes at an offset.
func OutByte(i int) byte { return "abcdefghijklmnopqrstuvwxyz"[i%26] }
func ErrByte(i int) byte { return "ABCDEFGHIJKLMNOPQRSTUVWXYZ"[i%26] }

func pattern(n int, f func(int) byte, off int) []byte {
	b := make([]byte, n)
	for i := range b {
		b[i] = f(off + i)
	}
	return b
}

func (e *exec) emit() {
	s := e.spec
	chunk := func(w io.Writer, total int, f func(int) byte) {
		if w == nil || total == 0 {
			return
		}
		off := 0
		ci := 0
		for off < total {
			n := total - off
			if len(s.ChunkSizes) > 0 {
				cs := s.ChunkSizes[ci%len(s.ChunkSizes)]
				ci++
				if cs < n && cs > 0 {
					n = cs
				}
			}
			_, _ = w.Write(pattern(n, f, off))
			off += n
		}
	}
	chunk(e.stdout, s.OutBytes, OutByte)
	chunk(e.stderr, s.ErrBytes, ErrByte)
}

func (e *exec) Run() error {
	c := e.c
	s := e.spec
	// dependency states are read just before RUN_ENTER is logged, without c.mu
	// (terminal states are stable, so an earlier read cannot misfire)
	deps := c.DepStates(s.Depends)
	if err := e.ctx.Err(); err != nil {
		// like exec.Cmd.Start: a process is never started on a finished context
		c.mu.Lock()
		c.log("RUN_REFUSED", s.Name, c.attempts[s.Name]+1, err.Error())
		c.mu.Unlock()
		return err
	}
	r := &openRun{step: s.Name, release: make(chan string, 1), kill: make(chan os.Signal, 8), never: s.Never, handler: s.isHandler}
	c.mu.Lock()
	c.attempts[s.Name]++
	att := c.attempts[s.Name]
	r.attempt = att
	c.log("RUN_ENTER", s.Name, att, "")
	if prev := c.open[s.Name]; prev != nil {
		c.online = append(c.online, fmt.Sprintf("C03|double-open|step %s has two Run() calls open at once (attempts %d and %d)", s.Name, prev.attempt, att))
	}
	c.open[s.Name] = r
	nOpen := 0
	for _, o := range c.open {
		if !o.handler {
			nOpen++
		}
	}
	if nOpen > c.maxOpen {
		c.maxOpen = nOpen
	}
	if c.OnRunEnter != nil {
		c.OnRunEnter(c, s.Name, att, deps)
	}
	immediate := s.isHandler && c.HandlerImmediate && !s.Never
	var auto time.Duration = -1
	if c.AutoRelease != nil {
		auto = c.AutoRelease(s.Name, att)
	}
	if !immediate {
		c.parked++
		c.cond.Broadcast()
	}
	c.mu.Unlock()
	e.mu.Lock()
	e.run = r
	e.mu.Unlock()

	e.emit()

	result := ""
	if immediate {
		result = "script"
	} else {
		var timer <-chan time.Time
		if auto >= 0 && !s.Never {
			timer = time.After(auto)
		}
	wait:
		for {
			select {
			case <-r.release:
				result = "script"
				break wait
			case <-timer:
				result = "script"
				break wait
			case <-e.ctx.Done():
				result = "ctx"
				break wait
			case sig := <-r.kill:
				if sig == syscall.SIGKILL || !s.IgnoreTerm {
					result = "killed:" + sigName(sig)
					break wait
				}
				// ignored
			}
		}
	}
	var err error
	switch {
	case result == "script":
		if s.Fails(att) {
			err = errScripted
		}
	case result == "ctx":
		err = fmt.Errorf("context done: %w", e.ctx.Err())
	default:
		err = fmt.Errorf("signal: %s", result)
	}
	for k, v := range s.SetEnv {
		os.Setenv(k, v)
	}
	for k, v := range s.SetFile {
		_ = os.WriteFile(k, []byte(v), 0644)
	}
	c.mu.Lock()
	if !immediate {
		c.parked--
	}
	if c.open[s.Name] == r {
		delete(c.open, s.Name)
	}
	info := result
	if err != nil {
		info += "|err"
	} else {
		info += "|ok"
	}
	c.log("RUN_EXIT", s.Name, att, info)
	c.cond.Broadcast()
	c.mu.Unlock()
	return err
}

// create is called with the node lock held (Node.setupExec): it must not take
// c.mu (see package comment).
func create(ctx context.Context, step dag.Step) (executor.Executor, error) {
	cfg := step.ExecutorConfig.Config
	id, _ := cfg["case"].(string)
	v, ok := cases.Load(id)
	if !ok {
		return nil, fmt.Errorf("verif executor: unknown case %q", id)
	}
	c := v.(*Case)
	s := c.Steps[step.Name]
	if s == nil {
		return nil, fmt.Errorf("verif executor: unknown step %q in case %q", step.Name, id)
	}
	c.creates.Add(1)
	return &exec{c: c, spec: s, ctx: ctx}, nil
}

var initOnce sync.Once

// Init registers the scripted executor and the hook dispatcher.
func Init() {
	initOnce.Do(func() {
		executor.Register("verif", create)
		verifhook.Set(dispatch)
	})
}
