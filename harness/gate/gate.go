// Package gate is the Go side of the ptrace supervisor sysgate.
package gate

import (
	"bufio"
	"bytes"
	"fmt"
	"io"
	"os"
	"os/exec"
	"path/filepath"
	"strconv"
	"strings"
	"sync"
	"syscall"
	"time"

	"github.com/ErdemOzgen/blackdagger/verifh/pgrp"
)

// Event is one numbered watched system call.
type Event struct {
	K    int
	Tid  int
	Name string
	Path string
	Len  int64
}

// Label is the crash-point label: syscall @ kind of file.
func (e Event) Label() string {
	p := filepath.Base(e.Path)
	kind := "other"
	switch {
	case strings.HasSuffix(p, "_c.dat"):
		kind = "run_c.dat"
	case strings.HasSuffix(p, ".dat"):
		kind = "run.dat"
	case strings.HasSuffix(p, ".sock"):
		kind = "sock"
	case strings.HasSuffix(p, ".yaml") || strings.HasSuffix(p, ".yml"):
		kind = "dag.yaml"
	case strings.HasSuffix(p, ".log"):
		kind = "log"
	case strings.Contains(p, ".yaml.") || strings.Contains(p, ".tmp"):
		kind = "tmpfile"
	case filepath.Ext(p) == "":
		kind = "dir-or-plain"
	}
	return e.Name + "@" + kind
}

type Result struct {
	Events   []Event
	Execs    []string // EXEC lines (descendant processes), with --log-exec
	Seq      []string // MARK and EXEC lines in the order they were logged
	Killed   bool
	Failed   bool // the chosen system call was made to fail (--fail-at)
	Torn     string
	ExitCode int
	Acks     []string // lines the worker wrote to fd 3
	Stdout   string
	TimedOut bool
}

type Opts struct {
	Watch      []string
	FromMarker bool
	LogExec    bool
	KillAt     int     // 0 = none
	Tear       float64 // >0 with KillAt: tear the write
	FailAt     int     // >0: system call FailAt returns -Errno instead of being executed
	Errno      int
	Env        []string
	Dir        string
	Timeout    time.Duration
	Stdin      io.Reader
}

func Sysgate() string {
	if p := os.Getenv("VERIF_SYSGATE"); p != "" {
		return p
	}
	return ""
}

// Run executes cmd under the supervisor.
func Run(o Opts, scratch string, cmd ...string) (*Result, error) {
	sg := Sysgate()
	if sg == "" {
		return nil, fmt.Errorf("VERIF_SYSGATE not set")
	}
	logf, err := os.CreateTemp(scratch, "sysgate-*.log")
	if err != nil {
		return nil, err
	}
	logf.Close()
	defer os.Remove(logf.Name())
	args := []string{}
	for _, w := range o.Watch {
		args = append(args, "--watch", w)
	}
	if o.FromMarker {
		args = append(args, "--from-marker")
	}
	if o.LogExec {
		args = append(args, "--log-exec")
	}
	if o.KillAt > 0 {
		args = append(args, "--kill-at", strconv.Itoa(o.KillAt))
		if o.Tear > 0 {
			args = append(args, "--tear", strconv.FormatFloat(o.Tear, 'f', 4, 64))
		}
	} else if o.FailAt > 0 {
		args = append(args, "--fail-at", strconv.Itoa(o.FailAt), "--errno", strconv.Itoa(o.Errno))
	} else {
		args = append(args, "--count")
	}
	args = append(args, "--log", logf.Name(), "--")
	args = append(args, cmd...)
	c := exec.Command(sg, args...)
	c.Env = append(os.Environ(), o.Env...)
	c.Dir = o.Dir
	c.Stdin = o.Stdin
	var out bytes.Buffer
	c.Stdout = &out
	c.Stderr = &out
	pr, pw, err := os.Pipe()
	if err != nil {
		return nil, err
	}
	c.ExtraFiles = []*os.File{pw} // fd 3 of the worker (inherited through sysgate)
	c.SysProcAttr = &syscall.SysProcAttr{Setpgid: true}
	if err := c.Start(); err != nil {
		pw.Close()
		pr.Close()
		return nil, err
	}
	grp := pgrp.Open(c.Process.Pid)
	defer grp.Close()
	pw.Close()
	ackCh := make(chan []string, 1)
	go func() {
		var acks []string
		sc := bufio.NewScanner(pr)
		sc.Buffer(make([]byte, 1<<16), 1<<22)
		for sc.Scan() {
			acks = append(acks, sc.Text())
		}
		ackCh <- acks
	}()
	to := o.Timeout
	if to == 0 {
		to = 60 * time.Second
	}
	done := make(chan error, 1)
	go func() { done <- c.Wait() }()
	res := &Result{}
	select {
	case <-done:
	case <-time.After(to):
		res.TimedOut = true
		grp.Kill()
		<-done
	}
	grp.Kill() // leftovers of the group, if any (by pidfd: never a later owner of the number)
	select {
	case res.Acks = <-ackCh:
	case <-time.After(5 * time.Second):
	}
	pr.Close()
	res.Stdout = out.String()
	if c.ProcessState != nil {
		res.ExitCode = c.ProcessState.ExitCode()
	}
	b, _ := os.ReadFile(logf.Name())
	for _, l := range strings.Split(string(b), "\n") {
		switch {
		case strings.HasPrefix(l, "KILL"):
			res.Killed = true
		case strings.HasPrefix(l, "TEAR"):
			res.Torn = l
		case strings.HasPrefix(l, "FAIL "):
			res.Failed = true
		case strings.HasPrefix(l, "EXEC "):
			res.Execs = append(res.Execs, l[5:])
			res.Seq = append(res.Seq, l)
		case strings.HasPrefix(l, "MARK "):
			res.Seq = append(res.Seq, l)
		case strings.HasPrefix(l, "END"), strings.HasPrefix(l, "MARKER"), l == "":
		default:
			f := strings.SplitN(l, " ", 4)
			if len(f) < 4 {
				continue
			}
			k, err1 := strconv.Atoi(f[0])
			tid, err2 := strconv.Atoi(f[1])
			if err1 != nil || err2 != nil {
				continue
			}
			rest := f[3]
			ln := int64(0)
			if i := strings.LastIndex(rest, " "); i >= 0 {
				ln, _ = strconv.ParseInt(rest[i+1:], 10, 64)
				rest = rest[:i]
			}
			res.Events = append(res.Events, Event{K: k, Tid: tid, Name: f[2], Path: rest, Len: ln})
		}
	}
	return res, nil
}

// ---- pause-at: hold the traced process before its K-th watched system call ------

// Paused is a traced process that stops before watched call K until Resume.
type Paused struct {
	grp     *pgrp.Handle
	cmd     *exec.Cmd
	stdin   io.WriteCloser
	logName string
	out     *lockedBuf
	paused  chan string // receives the PAUSED line, closed when the process ends
	done    chan struct{}
	resumed bool
}

type lockedBuf struct {
	mu sync.Mutex
	b  bytes.Buffer
}

func (l *lockedBuf) Write(p []byte) (int, error) {
	l.mu.Lock()
	defer l.mu.Unlock()
	return l.b.Write(p)
}
func (l *lockedBuf) String() string { l.mu.Lock(); defer l.mu.Unlock(); return l.b.String() }

// StartPaused runs cmd under the supervisor with --pause-at k.
func StartPaused(o Opts, k int, scratch string, cmd ...string) (*Paused, error) {
	sg := Sysgate()
	if sg == "" {
		return nil, fmt.Errorf("VERIF_SYSGATE not set")
	}
	logf, err := os.CreateTemp(scratch, "sysgate-*.log")
	if err != nil {
		return nil, err
	}
	logf.Close()
	args := []string{}
	for _, w := range o.Watch {
		args = append(args, "--watch", w)
	}
	args = append(args, "--pause-at", strconv.Itoa(k), "--log", logf.Name(), "--")
	args = append(args, cmd...)
	c := exec.Command(sg, args...)
	c.Env = append(os.Environ(), o.Env...)
	c.Dir = o.Dir
	c.SysProcAttr = &syscall.SysProcAttr{Setpgid: true}
	stdin, err := c.StdinPipe()
	if err != nil {
		return nil, err
	}
	pr, pw, err := os.Pipe()
	if err != nil {
		return nil, err
	}
	c.Stdout = pw
	c.Stderr = pw
	if err := c.Start(); err != nil {
		pw.Close()
		pr.Close()
		return nil, err
	}
	pw.Close()
	p := &Paused{grp: pgrp.Open(c.Process.Pid), cmd: c, stdin: stdin, logName: logf.Name(), out: &lockedBuf{}, paused: make(chan string, 1), done: make(chan struct{})}
	go func() {
		sc := bufio.NewScanner(pr)
		sc.Buffer(make([]byte, 1<<16), 1<<22)
		sent := false
		for sc.Scan() {
			l := sc.Text()
			_, _ = p.out.Write([]byte(l + "\n"))
			if !sent && strings.HasPrefix(l, "PAUSED ") {
				sent = true
				p.paused <- l
			}
		}
		pr.Close()
		_ = c.Wait()
		close(p.paused)
		close(p.done)
	}()
	return p, nil
}

// WaitPaused returns the PAUSED line, or "" if the process ended (or the limit
// passed) without reaching call K.
func (p *Paused) WaitPaused(limit time.Duration) (string, bool) {
	select {
	case l, ok := <-p.paused:
		if ok && l != "" {
			return l, true
		}
		return "", false
	case <-time.After(limit):
		return "", false
	}
}

// Resume lets the held process continue.
func (p *Paused) Resume() {
	if !p.resumed {
		p.resumed = true
		_, _ = p.stdin.Write([]byte("\n"))
		_ = p.stdin.Close()
	}
}

// Wait returns when the process has ended (killing it after limit).
func (p *Paused) Wait(limit time.Duration) (exit int, output string, timedOut bool) {
	select {
	case <-p.done:
	case <-time.After(limit):
		timedOut = true
		p.grp.Kill()
		<-p.done
	}
	p.grp.KillClose() // leftovers of the group, if any
	os.Remove(p.logName)
	if p.cmd.ProcessState != nil {
		exit = p.cmd.ProcessState.ExitCode()
	}
	return exit, p.out.String(), timedOut
}
