package main

import (
	"encoding/json"
	"fmt"
	"os"

	"github.com/ErdemOzgen/blackdagger/verifh/core"
	_ "github.com/ErdemOzgen/blackdagger/verifh/props"
)

func main() {
	if len(os.Args) < 2 {
		fmt.Fprintln(os.Stderr, "usage: vcheck run <ID> <quick|thorough> | replay <path> | shard ... | list")
		os.Exit(2)
	}
	switch os.Args[1] {
	case "list":
		for _, id := range core.IDs() {
			fmt.Println(id)
		}
	case "run":
		if len(os.Args) < 4 {
			os.Exit(2)
		}
		os.Exit(core.RunMain(os.Args[2], os.Args[3], -1, nil))
	case "replay":
		b, err := os.ReadFile(os.Args[2])
		if err != nil {
			fmt.Println("INCONCLUSIVE reason=cannot-read-replay", err)
			os.Exit(2)
		}
		var rp struct {
			Property string `json:"property"`
			Tier     string `json:"tier"`
			Seed     int64  `json:"seed"`
			Index    int    `json:"index"`
		}
		if err := json.Unmarshal(b, &rp); err != nil || rp.Property == "" {
			fmt.Println("INCONCLUSIVE reason=bad-replay-file")
			os.Exit(2)
		}
		os.Exit(core.RunMain(rp.Property, rp.Tier, rp.Index, &rp.Seed))
	case "shard":
		os.Exit(core.ShardMain(os.Args[2:]))
	default:
		if h := core.Sub[os.Args[1]]; h != nil {
			os.Exit(h(os.Args[2:]))
		}
		fmt.Fprintln(os.Stderr, "unknown subcommand", os.Args[1])
		os.Exit(2)
	}
}
