package core

import (
	"encoding/json"
	"os"
	"path/filepath"
	"sort"
)

func writeEvidence(p *Prop, tier string, seed int64, total *ShardResult, perPass map[string]*ShardResult,
	distinct, violations int, known, races, raceTexts []string, wall float64, exit int) {
	if tier != "thorough" {
		tier = "quick"
	}
	sets := map[string]any{}
	for s, m := range total.Sets {
		ks := SortedKeys(m)
		if len(ks) > 60 {
			sets[s] = map[string]any{"count": len(ks), "first": ks[:60]}
		} else {
			sets[s] = ks
		}
	}
	passes := map[string]any{}
	var pn []string
	for n := range perPass {
		pn = append(pn, n)
	}
	sort.Strings(pn)
	for _, n := range pn {
		passes[n] = map[string]any{"evaluations": perPass[n].Evaluations, "counters": perPass[n].Counters}
	}
	samples := total.Samples
	if samples == nil {
		samples = []any{}
	}
	cov := map[string]any{
		"evaluations":         total.Evaluations,
		"distinct_nontrivial": distinct,
		"rule":                p.Rule,
		"samples":             samples,
		"counters":            total.Counters,
		"distinct_sets":       sets,
		"passes":              passes,
		"violation_keys":      total.KeyHist,
		"race_reports":        races,
		"race_report_texts":   raceTexts,
		"known_findings_seen": known,
		"inconclusive":        total.Inconclusive,
		"verdict":             map[int]string{0: "held", 1: "violated", 2: "inconclusive"}[exit],
	}
	if p.Exhaustive != nil && p.Exhaustive(tier) {
		cov["exhaustive"] = true
	}
	ev := map[string]any{
		"property_id": p.ID,
		"tier":        tier,
		"seed":        seed,
		"level":       p.Level,
		"coverage":    cov,
		"assumptions": p.Assumptions,
		"wall_s":      wall,
		"violations":  violations,
	}
	b, _ := json.MarshalIndent(ev, "", " ")
	dir := filepath.Join(VerifDir, "evidence")
	if d := os.Getenv("VERIF_EVIDENCE_DIR"); d != "" {
		dir = d // development runs against a scratch copy of the repository (bin/check, VERIF_REPO)
	}
	_ = os.MkdirAll(dir, 0755)
	_ = os.WriteFile(filepath.Join(dir, p.ID+".json"), append(b, '\n'), 0644)
}
