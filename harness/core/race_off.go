//go:build !race

package core

const raceEnabled = false
