package core

import (
	"bufio"
	"encoding/json"
	"fmt"
	"os"
	"os/exec"
	"path/filepath"
	"regexp"
	"runtime"
	"sort"
	"strconv"
	"strings"
	"sync"
	"syscall"
	"time"

	"github.com/ErdemOzgen/blackdagger/verifh/pgrp"
)

// Pass is one group of shard processes of a property run.
type Pass struct {
	Name   string // "main", "race", ...
	Mode   string // handed to the body as ctx.Mode
	Race   bool   // use the -race binary
	Shards int
	// Timeout for one shard process; firing is inconclusive.
	Timeout time.Duration
}

// Prop describes one property check.
type Prop struct {
	ID          string
	Level       string // exploration | fault_enumeration
	Rule        string
	Assumptions []string
	Passes      func(tier string) []Pass
	Body        func(c *Ctx)
	// CrashKey classifies the death of a shard process while a case was open.
	// Return "" to treat it as inconclusive instead of a violation.
	CrashKey func(caseDesc string, output string) (key, what string)
	// Exhaustive reports whether the run enumerated a finite space completely.
	Exhaustive func(tier string) bool
	// MinDistinct is the smallest number of distinct non-trivial cases below
	// which a run counts as having observed nothing (inconclusive).
	MinDistinct int
}

var registry = map[string]*Prop{}

func Register(p *Prop) { registry[p.ID] = p }

func Lookup(id string) *Prop { return registry[id] }

func IDs() []string {
	var out []string
	for k := range registry {
		out = append(out, k)
	}
	sort.Strings(out)
	return out
}

const VerifDir = "/verif"

func envInt(name string, def int64) int64 {
	if v := os.Getenv(name); v != "" {
		if n, err := strconv.ParseInt(v, 10, 64); err == nil {
			return n
		}
	}
	return def
}

// ShardMain is the entry point of a child process.
func ShardMain(args []string) int {
	// args: prop tier seed shard nshards only scratch mode outfile
	if len(args) < 9 {
		fmt.Fprintln(os.Stderr, "shard: bad args")
		return 2
	}
	p := Lookup(args[0])
	if p == nil {
		fmt.Fprintln(os.Stderr, "shard: unknown property", args[0])
		return 2
	}
	seed, _ := strconv.ParseInt(args[2], 10, 64)
	shard, _ := strconv.Atoi(args[3])
	nsh, _ := strconv.Atoi(args[4])
	only, _ := strconv.Atoi(args[5])
	c := NewCtx(args[0], args[1], seed, shard, nsh, only, args[6])
	c.Mode = args[7]
	c.Race = raceEnabled
	out := args[8]
	pf, err := os.OpenFile(out+".progress", os.O_CREATE|os.O_WRONLY|os.O_TRUNC, 0644)
	if err == nil {
		c.SetProgress(pf)
	}
	p.Body(c)
	if n := pgrp.Reused(); n > 0 {
		// signals to a child's process group sent when the group's number already named another
		// process (package pgrp: they reached the group's leftovers or nobody, not the new owner)
		c.Count("group_signals_sent_after_the_pid_number_was_reused", n)
	}
	r := c.Result()
	r.Done = true
	b, _ := json.Marshal(r)
	if err := os.WriteFile(out+".tmp", b, 0644); err != nil {
		fmt.Fprintln(os.Stderr, "shard: write:", err)
		return 2
	}
	_ = os.Rename(out+".tmp", out)
	return 0
}

type shardRun struct {
	pass   Pass
	shard  int
	out    string
	log    string
	err    error
	killed bool
	reruns int
	// open case index ("" = none) at each death by a SIGKILL that was not the watchdog's
	sigkillAt []string
}

// RunMain is the driver: `vcheck run <ID> <tier>` or `vcheck replay <path>`.
func RunMain(id, tier string, only int, seedOverride *int64) int {
	start := time.Now()
	p := Lookup(id)
	if p == nil {
		fmt.Printf("INCONCLUSIVE property=%s reason=unknown-property\n", id)
		return 2
	}
	seed := envInt("VERIF_SEED", 1)
	if seedOverride != nil {
		seed = *seedOverride
	}
	scratch := os.Getenv("VERIF_SCRATCH")
	if scratch == "" {
		d, err := os.MkdirTemp("/tmp", "verif-"+id+"-")
		if err != nil {
			fmt.Printf("INCONCLUSIVE property=%s reason=no-scratch\n", id)
			return 2
		}
		scratch = d
		defer os.RemoveAll(d)
	}
	self, _ := os.Executable()
	raceBin := os.Getenv("VCHECK_RACE_BIN")
	passes := p.Passes(tier)
	if only := os.Getenv("VERIF_ONLY_PASS"); only != "" { // development aid
		var keep []Pass
		for _, ps := range passes {
			if ps.Name == only {
				keep = append(keep, ps)
			}
		}
		passes = keep
	}
	var runs []*shardRun
	for _, ps := range passes {
		if ps.Race && raceBin == "" {
			fmt.Printf("INCONCLUSIVE property=%s reason=race-binary-missing\n", id)
			return 2
		}
		n := ps.Shards
		if only >= 0 {
			n = 1
		}
		for s := 0; s < n; s++ {
			runs = append(runs, &shardRun{pass: ps, shard: s,
				out: filepath.Join(scratch, fmt.Sprintf("res-%s-%d.json", ps.Name, s)),
				log: filepath.Join(scratch, fmt.Sprintf("log-%s-%d.txt", ps.Name, s))})
		}
	}
	// run with bounded parallelism
	par := runtime.NumCPU()
	if v := envInt("VERIF_PAR", 0); v > 0 {
		par = int(v)
	}
	sem := make(chan struct{}, par)
	var wg sync.WaitGroup
	for _, r := range runs {
		wg.Add(1)
		go func(r *shardRun) {
			defer wg.Done()
			sem <- struct{}{}
			defer func() { <-sem }()
			bin := self
			if r.pass.Race {
				bin = raceBin
			}
			n := r.pass.Shards
			if only >= 0 {
				n = 1
			}
			shScratch := filepath.Join(scratch, fmt.Sprintf("w-%s-%d", r.pass.Name, r.shard))
		again:
			_ = os.MkdirAll(shScratch, 0755)
			cmd := exec.Command(bin, "shard", id, tier, strconv.FormatInt(seed, 10),
				strconv.Itoa(r.shard), strconv.Itoa(n), strconv.Itoa(only), shScratch, r.pass.Mode, r.out)
			lf, _ := os.Create(r.log)
			cmd.Stdout = lf
			cmd.Stderr = lf
			cmd.Env = append(os.Environ(), "TZ=UTC", "VERIF_SHARD_SCRATCH="+shScratch)
			if r.pass.Race {
				cmd.Env = append(cmd.Env, "GORACE=halt_on_error=0 log_path="+filepath.Join(scratch, fmt.Sprintf("race-%s-%d", r.pass.Name, r.shard)))
			}
			cmd.SysProcAttr = &syscall.SysProcAttr{Setpgid: true}
			if err := cmd.Start(); err != nil {
				r.err = err
				lf.Close()
				return
			}
			grp := pgrp.Open(cmd.Process.Pid)
			done := make(chan error, 1)
			go func() { done <- cmd.Wait() }()
			to := r.pass.Timeout
			if to == 0 {
				to = 20 * time.Minute
			}
			select {
			case err := <-done:
				r.err = err
			case <-time.After(to):
				r.killed = true
				_ = syscall.Kill(cmd.Process.Pid, syscall.SIGQUIT)
				select {
				case <-done:
				case <-time.After(10 * time.Second):
				}
				grp.Kill()
				<-done
			}
			// best effort: kill leftovers of the group (by pidfd, see package pgrp: the shard has
			// been reaped and its number may belong to somebody else by now)
			grp.KillClose()
			lf.Close()
			// A shard process ended by a SIGKILL that is not the watchdog's was killed from outside:
			// a Go process that panics or hits a fatal error exits with status 2 or dies of
			// SIGABRT/SIGSEGV/SIGBUS, never of SIGKILL, and nothing in the harness, the supervisor or
			// blackdagger signals a shard.  Such a death says nothing about the property, so the same
			// shard - same seed, same cases - is run again, at most twice, and the re-run is
			// reported.  Only a shard that dies of SIGKILL all three times at the SAME open case is
			// handed to CrashKey (something in that case does it); otherwise it stays inconclusive.
			if !r.killed && diedOfSigkill(r.err) {
				if _, err := os.Stat(r.out); err != nil {
					open := lastOpenCase(r.out + ".progress")
					r.sigkillAt = append(r.sigkillAt, strings.SplitN(open, " ", 2)[0])
					if r.reruns < 2 {
						r.reruns++
						logb, _ := os.ReadFile(r.log)
						saveArtifact(id, seed, fmt.Sprintf("outside-kill-%s-%d.%d.log", r.pass.Name, r.shard, r.reruns), logb)
						_ = os.Remove(r.out + ".progress")
						_ = os.RemoveAll(shScratch)
						r.err = nil
						goto again
					}
				}
			}
		}(r)
	}
	wg.Wait()

	total := &ShardResult{}
	perPass := map[string]*ShardResult{}
	for _, r := range runs {
		if r.reruns > 0 {
			fmt.Printf("NOTE: pass %s shard %d was ended by a SIGKILL from outside the check and was run again (%d time(s)); logs: %s/%s-%d-outside-kill-*\n",
				r.pass.Name, r.shard, r.reruns, replayDir(), id, seed)
			Merge(total, &ShardResult{Counters: map[string]int64{"shards_run_again_after_a_sigkill_from_outside": int64(r.reruns)}})
		}
		b, err := os.ReadFile(r.out)
		var sr ShardResult
		if err == nil {
			err = json.Unmarshal(b, &sr)
		}
		if err != nil || !sr.Done {
			// process died (or was killed by the watchdog) before reporting
			logb, _ := os.ReadFile(r.log)
			open := lastOpenCase(r.out + ".progress")
			if r.killed {
				total.Inconclusive = append(total.Inconclusive,
					fmt.Sprintf("pass %s shard %d: watchdog fired (open case: %s)", r.pass.Name, r.shard, trunc(open, 300)))
				saveArtifact(id, seed, fmt.Sprintf("watchdog-%s-%d.log", r.pass.Name, r.shard), logb)
				continue
			}
			key, what := "", ""
			sameCase := true
			for _, at := range r.sigkillAt {
				if at == "" || at != r.sigkillAt[0] {
					sameCase = false
				}
			}
			if p.CrashKey != nil && open != "" && sameCase {
				key, what = p.CrashKey(open, string(logb))
			}
			if key == "" {
				total.Inconclusive = append(total.Inconclusive,
					fmt.Sprintf("pass %s shard %d died: %v; open case: %s; tail: %s", r.pass.Name, r.shard, r.err, trunc(open, 300), trunc(tail(string(logb), 800), 800)))
				saveArtifact(id, seed, fmt.Sprintf("died-%s-%d.log", r.pass.Name, r.shard), logb)
				continue
			}
			idx := -1
			var cs any
			if f := strings.SplitN(open, " ", 2); len(f) == 2 {
				idx, _ = strconv.Atoi(f[0])
				_ = json.Unmarshal([]byte(f[1]), &cs)
			}
			total.Violations = append(total.Violations, Violation{Property: id, Key: key, What: what, Case: cs, Index: idx})
			continue
		}
		Merge(total, &sr)
		pp := perPass[r.pass.Name]
		if pp == nil {
			pp = &ShardResult{}
			perPass[r.pass.Name] = pp
		}
		Merge(pp, &ShardResult{Evaluations: sr.Evaluations, Counters: sr.Counters})
	}

	// race reports
	raceReports := collectRaceReports(scratch)
	gate := RaceGate[id]
	var raceKeys []string
	for k, rr := range raceReports {
		raceKeys = append(raceKeys, k)
		if gate != nil && rr.gated(gate) {
			total.Violations = append(total.Violations, Violation{Property: id, Key: "race:" + k,
				What: "data race between lock-taking accessors of anchored state: " + k, Case: map[string]any{"report": rr.text}, Index: -1})
		}
	}
	sort.Strings(raceKeys)

	// known findings
	kf := LoadFindings()
	knownSeen := map[string]string{}
	var fresh []Violation
	for _, v := range total.Violations {
		if f := kf.Match(id, v.Key); f != nil {
			if _, ok := knownSeen[f.Key]; !ok {
				knownSeen[f.Key] = f.What
			}
			continue
		}
		fresh = append(fresh, v)
	}
	kkeys := make([]string, 0, len(knownSeen))
	for k := range knownSeen {
		kkeys = append(kkeys, k)
	}
	sort.Strings(kkeys)
	for _, k := range kkeys {
		fmt.Printf("KNOWN-FINDING: property=%s %s [%s]\n", id, knownSeen[k], k)
	}

	distinct := len(total.Signatures) + int(total.Counters["distinct_by_enumeration"])
	exit := 0
	keyHist := map[string]int{}
	for _, v := range total.Violations {
		keyHist[v.Key]++
	}
	total.KeyHist = keyHist
	// write replays for fresh violations (dedupe by key, keep first 5 keys)
	seenKey := map[string]bool{}
	nrep := 0
	for _, v := range fresh {
		if seenKey[v.Key] {
			continue
		}
		seenKey[v.Key] = true
		if nrep >= 40 {
			continue
		}
		path := filepath.Join(replayDir(), fmt.Sprintf("%s-%d-%d.json", id, seed, nrep))
		_ = os.MkdirAll(filepath.Dir(path), 0755)
		rb, _ := json.MarshalIndent(map[string]any{"property": id, "tier": tier, "seed": seed, "index": v.Index, "key": v.Key, "what": v.What, "case": v.Case}, "", " ")
		_ = os.WriteFile(path, rb, 0644)
		fmt.Printf("VIOLATION property=%s replay=%s key=%s :: %s\n", id, path, v.Key, trunc(v.What, 400))
		nrep++
		exit = 1
	}
	if exit == 0 {
		if len(total.Inconclusive) > 0 {
			for _, r := range total.Inconclusive {
				fmt.Printf("INCONCLUSIVE property=%s reason=%s\n", id, trunc(strings.ReplaceAll(r, "\n", " | "), 1200))
			}
			exit = 2
		} else if only < 0 && distinct < max(2, p.MinDistinct) {
			fmt.Printf("INCONCLUSIVE property=%s reason=observed-too-little distinct=%d\n", id, distinct)
			exit = 2
		}
	}

	wall := time.Since(start).Seconds()
	if only < 0 {
		var raceTexts []string
		for _, k := range raceKeys {
			if len(raceTexts) < 4 {
				raceTexts = append(raceTexts, trunc(raceReports[k].text, 2500))
			}
		}
		writeEvidence(p, tier, seed, total, perPass, distinct, len(fresh), kkeys, raceKeys, raceTexts, wall, exit)
	}
	if only >= 0 { // replay: show what was re-executed
		for _, sm := range total.Samples {
			b, _ := json.Marshal(sm)
			fmt.Printf("  replayed case: %s\n", trunc(string(b), 3000))
		}
	}
	verdict := map[int]string{0: "held", 1: "violated", 2: "inconclusive"}[exit]
	fmt.Printf("%s %s seed=%d verdict=%s evaluations=%d distinct_nontrivial=%d violations=%d known_findings=%d race_reports=%d wall=%.1fs\n",
		id, tier, seed, verdict, total.Evaluations, distinct, len(fresh), len(kkeys), len(raceKeys), wall)
	printCounters(total)
	return exit
}

func diedOfSigkill(err error) bool {
	ee, ok := err.(*exec.ExitError)
	if !ok || ee.ProcessState == nil {
		return false
	}
	ws, ok := ee.ProcessState.Sys().(syscall.WaitStatus)
	return ok && ws.Signaled() && ws.Signal() == syscall.SIGKILL
}

func printCounters(t *ShardResult) {
	var ks []string
	for k := range t.Counters {
		ks = append(ks, k)
	}
	sort.Strings(ks)
	var parts []string
	for _, k := range ks {
		parts = append(parts, fmt.Sprintf("%s=%d", k, t.Counters[k]))
	}
	for s, m := range t.Sets {
		parts = append(parts, fmt.Sprintf("|%s|=%d", s, len(m)))
	}
	fmt.Println("  observed:", strings.Join(parts, " "))
}

func replayDir() string {
	if d := os.Getenv("VERIF_REPLAY_DIR"); d != "" {
		return d
	}
	return filepath.Join(VerifDir, "replays")
}

func saveArtifact(id string, seed int64, name string, b []byte) {
	dir := replayDir()
	_ = os.MkdirAll(dir, 0755)
	if len(b) > 1<<20 {
		b = b[len(b)-(1<<20):]
	}
	_ = os.WriteFile(filepath.Join(dir, fmt.Sprintf("%s-%d-%s", id, seed, name)), b, 0644)
}

func trunc(s string, n int) string {
	if len(s) > n {
		return s[:n] + "…"
	}
	return s
}

func tail(s string, n int) string {
	if len(s) > n {
		return s[len(s)-n:]
	}
	return s
}

func max(a, b int) int {
	if a > b {
		return a
	}
	return b
}

// lastOpenCase returns "<index> <json>" of the last BEGIN without END.
func lastOpenCase(path string) string {
	f, err := os.Open(path)
	if err != nil {
		return ""
	}
	defer f.Close()
	open := map[string]string{}
	var order []string
	sc := bufio.NewScanner(f)
	sc.Buffer(make([]byte, 1<<20), 64<<20)
	for sc.Scan() {
		l := sc.Text()
		if strings.HasPrefix(l, "BEGIN ") {
			rest := l[6:]
			idx := strings.SplitN(rest, " ", 2)[0]
			open[idx] = rest
			order = append(order, idx)
		} else if strings.HasPrefix(l, "END ") {
			delete(open, strings.TrimSpace(l[4:]))
		}
	}
	for i := len(order) - 1; i >= 0; i-- {
		if v, ok := open[order[i]]; ok {
			return v
		}
	}
	return ""
}

// ---- race reports -------------------------------------------------------

type raceReport struct {
	text   string
	frames [2][]string // function names of the two stacks (top first)
}

var funcLine = regexp.MustCompile(`^  (\S.*)\([^()]*\)\s*$`)

func collectRaceReports(scratch string) map[string]*raceReport {
	out := map[string]*raceReport{}
	files, _ := filepath.Glob(filepath.Join(scratch, "race-*"))
	for _, f := range files {
		b, err := os.ReadFile(f)
		if err != nil {
			continue
		}
		for _, blk := range strings.Split(string(b), "==================") {
			if !strings.Contains(blk, "WARNING: DATA RACE") {
				continue
			}
			rr := &raceReport{text: trunc(blk, 6000)}
			// split into stacks: sections start with a line ending in ':' that
			// begins with "Write at", "Read at", "Previous write at", "Previous read at"
			sect := -1
			for _, l := range strings.Split(blk, "\n") {
				t := strings.TrimSpace(l)
				if strings.HasPrefix(t, "Write at") || strings.HasPrefix(t, "Read at") ||
					strings.HasPrefix(t, "Previous write at") || strings.HasPrefix(t, "Previous read at") {
					sect++
					continue
				}
				if strings.HasPrefix(t, "Goroutine ") {
					sect = 99
					continue
				}
				if sect >= 0 && sect < 2 {
					if m := funcLine.FindStringSubmatch(l); m != nil {
						rr.frames[sect] = append(rr.frames[sect], m[1])
					}
				}
			}
			ka, kb := topUser(rr.frames[0]), topUser(rr.frames[1])
			if kb < ka {
				ka, kb = kb, ka
			}
			k := ka + " <-> " + kb
			if _, ok := out[k]; !ok {
				out[k] = rr
			}
		}
	}
	return out
}

func topUser(fr []string) string {
	for _, f := range fr {
		if strings.Contains(f, "ErdemOzgen/blackdagger/internal") || strings.Contains(f, "ErdemOzgen/blackdagger/cmd") {
			i := strings.Index(f, "blackdagger/")
			return f[i+len("blackdagger/"):]
		}
	}
	if len(fr) > 0 {
		return fr[0]
	}
	return "?"
}

// RaceGate lists, per property, the lock-taking accessors of anchored state.
// A race report is a violation only if BOTH stacks have one of these as their
// innermost blackdagger frame (DESIGN §1.1).
var RaceGate = map[string][]string{}

func (r *raceReport) gated(acc []string) bool {
	in := func(fr []string) bool {
		t := topUser(fr)
		for _, a := range acc {
			if strings.HasSuffix(t, a) {
				return true
			}
		}
		return false
	}
	return in(r.frames[0]) && in(r.frames[1])
}
