package core

import (
	"encoding/json"
	"os"
	"path/filepath"
	"strings"
)

// Finding is one entry of /verif/known_findings.json (committed, never written
// at run time).
type Finding struct {
	Property string `json:"property"`
	// Key is the monitor-computed signature. A trailing '*' matches as prefix.
	Key    string `json:"key"`
	What   string `json:"what"`
	Status string `json:"status"` // open | fixed
	Commit string `json:"commit,omitempty"`
}

type Findings struct {
	Entries []Finding `json:"findings"`
}

func LoadFindings() *Findings {
	var f Findings
	path := filepath.Join(VerifDir, "known_findings.json")
	if os.Getenv("VERIF_REPO") != "" && os.Getenv("VERIF_FINDINGS") != "" {
		path = os.Getenv("VERIF_FINDINGS") // development aid (trials on a scratch copy only)
	}
	b, err := os.ReadFile(path)
	if err != nil {
		return &f
	}
	_ = json.Unmarshal(b, &f)
	return &f
}

// Match returns the open finding that lists this violation, if any. Entries
// with status "fixed" are documentation and suppress nothing.
func (f *Findings) Match(prop, key string) *Finding {
	for i := range f.Entries {
		e := &f.Entries[i]
		if e.Property != prop || e.Status != "open" {
			continue
		}
		if e.Key == key {
			return e
		}
		if strings.HasSuffix(e.Key, "*") && strings.HasPrefix(key, strings.TrimSuffix(e.Key, "*")) {
			return e
		}
	}
	return nil
}
