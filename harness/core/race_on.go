//go:build race

package core

const raceEnabled = true
