// Package core is the property-independent part of the verification driver:
// sharded execution in child processes, result merging, known-finding
// matching, evidence files and the verdict/exit-code discipline.
package core

import (
	"crypto/sha256"
	"encoding/hex"
	"encoding/json"
	"fmt"
	"math/rand"
	"os"
	"sort"
	"sync"
)

// Violation is one failed obligation observed on a recorded execution.
type Violation struct {
	Property string `json:"property"`
	// Key is the finding signature computed by the monitor. Known findings are
	// matched on it, so it must name the specific failing input class / site.
	Key  string `json:"key"`
	What string `json:"what"`
	// Case holds everything needed to re-execute the failing case.
	Case any `json:"case,omitempty"`
	// Index of the case in the deterministic case list of (property, tier, seed).
	Index int `json:"index"`
}

// ShardResult is what one child process reports back to the driver.
type ShardResult struct {
	Shard        int                        `json:"shard"`
	Evaluations  int64                      `json:"evaluations"`
	Signatures   map[string]bool            `json:"signatures"`
	Counters     map[string]int64           `json:"counters"`
	Sets         map[string]map[string]bool `json:"sets"`
	Samples      []any                      `json:"samples"`
	Violations   []Violation                `json:"violations"`
	Inconclusive []string                   `json:"inconclusive"`
	Done         bool                       `json:"done"`
	KeyHist      map[string]int             `json:"-"`
}

// Ctx is handed to a property's shard body.
type Ctx struct {
	Prop    string
	Tier    string // quick | thorough
	Seed    int64
	Shard   int
	NShards int
	Only    int // >= 0: run only the case with this index (replay)
	Scratch string
	Race    bool // this process is the -race build
	Mode    string

	mu       sync.Mutex
	res      ShardResult
	progress *os.File
	maxSamp  int
}

func NewCtx(prop, tier string, seed int64, shard, nshards, only int, scratch string) *Ctx {
	c := &Ctx{Prop: prop, Tier: tier, Seed: seed, Shard: shard, NShards: nshards, Only: only, Scratch: scratch, maxSamp: 3}
	c.res.Shard = shard
	c.res.Signatures = map[string]bool{}
	c.res.Counters = map[string]int64{}
	c.res.Sets = map[string]map[string]bool{}
	return c
}

// Mine reports whether the case with the given index belongs to this shard.
func (c *Ctx) Mine(index int) bool {
	if c.Only >= 0 {
		return index == c.Only
	}
	return index%c.NShards == c.Shard
}

func (c *Ctx) Quick() bool { return c.Tier != "thorough" }

// Pick returns q for the quick tier and t for the thorough tier.
func (c *Ctx) Pick(q, t int) int {
	if c.Quick() {
		return q
	}
	return t
}

// Rand returns a PRNG that is a pure function of (property, seed, stream, index).
func (c *Ctx) Rand(stream string, index int) *rand.Rand {
	h := sha256.Sum256([]byte(fmt.Sprintf("%s|%d|%s|%d", c.Prop, c.Seed, stream, index)))
	var s int64
	for i := 0; i < 8; i++ {
		s = s<<8 | int64(h[i])
	}
	return rand.New(rand.NewSource(s))
}

// Begin / End bracket a case in the progress file so that a process death is
// attributed to one input.
func (c *Ctx) Begin(index int, desc any) {
	if c.progress == nil {
		return
	}
	b, _ := json.Marshal(desc)
	c.mu.Lock()
	fmt.Fprintf(c.progress, "BEGIN %d %s\n", index, b)
	c.mu.Unlock()
}

func (c *Ctx) End(index int) {
	if c.progress == nil {
		return
	}
	c.mu.Lock()
	fmt.Fprintf(c.progress, "END %d\n", index)
	c.mu.Unlock()
}

func (c *Ctx) SetProgress(f *os.File) { c.progress = f }

func (c *Ctx) Eval(n int64) {
	c.mu.Lock()
	c.res.Evaluations += n
	c.mu.Unlock()
}

// Sig records the signature of a distinct non-trivial case.
func (c *Ctx) Sig(parts ...any) {
	h := sha256.Sum256([]byte(fmt.Sprint(parts...)))
	k := hex.EncodeToString(h[:8])
	c.mu.Lock()
	c.res.Signatures[k] = true
	c.mu.Unlock()
}

func (c *Ctx) Count(name string, n int64) {
	c.mu.Lock()
	c.res.Counters[name] += n
	c.mu.Unlock()
}

// Max keeps the maximum of a counter.
func (c *Ctx) Max(name string, n int64) {
	c.mu.Lock()
	if n > c.res.Counters[name] {
		c.res.Counters[name] = n
	}
	c.mu.Unlock()
}

// SetAdd adds an element to a named set of distinct things seen.
func (c *Ctx) SetAdd(set, elem string) {
	c.mu.Lock()
	m := c.res.Sets[set]
	if m == nil {
		m = map[string]bool{}
		c.res.Sets[set] = m
	}
	if len(m) < 5000 {
		m[elem] = true
	}
	c.mu.Unlock()
}

// Sample stores one written-out case (only a few are kept per shard).
func (c *Ctx) Sample(s any) {
	c.mu.Lock()
	if len(c.res.Samples) < c.maxSamp {
		c.res.Samples = append(c.res.Samples, s)
	}
	c.mu.Unlock()
}

func (c *Ctx) Violate(index int, key, what string, cs any) {
	c.mu.Lock()
	if len(c.res.Violations) < 200 {
		c.res.Violations = append(c.res.Violations, Violation{Property: c.Prop, Key: key, What: what, Case: cs, Index: index})
	}
	c.res.Counters["violations_raw"]++
	c.mu.Unlock()
}

func (c *Ctx) Inconclusive(reason string) {
	c.mu.Lock()
	if len(c.res.Inconclusive) < 50 {
		c.res.Inconclusive = append(c.res.Inconclusive, reason)
	}
	c.mu.Unlock()
}

func (c *Ctx) Result() *ShardResult {
	c.mu.Lock()
	defer c.mu.Unlock()
	r := c.res
	return &r
}

// Merge folds b into a.
func Merge(a, b *ShardResult) {
	a.Evaluations += b.Evaluations
	if a.Signatures == nil {
		a.Signatures = map[string]bool{}
	}
	for k := range b.Signatures {
		a.Signatures[k] = true
	}
	if a.Counters == nil {
		a.Counters = map[string]int64{}
	}
	for k, v := range b.Counters {
		if len(k) > 4 && k[:4] == "max_" {
			if v > a.Counters[k] {
				a.Counters[k] = v
			}
		} else {
			a.Counters[k] += v
		}
	}
	if a.Sets == nil {
		a.Sets = map[string]map[string]bool{}
	}
	for s, m := range b.Sets {
		if a.Sets[s] == nil {
			a.Sets[s] = map[string]bool{}
		}
		for k := range m {
			a.Sets[s][k] = true
		}
	}
	if len(a.Samples) < 6 {
		a.Samples = append(a.Samples, b.Samples...)
		if len(a.Samples) > 6 {
			a.Samples = a.Samples[:6]
		}
	}
	a.Violations = append(a.Violations, b.Violations...)
	a.Inconclusive = append(a.Inconclusive, b.Inconclusive...)
}

func SortedKeys(m map[string]bool) []string {
	out := make([]string, 0, len(m))
	for k := range m {
		out = append(out, k)
	}
	sort.Strings(out)
	return out
}

// Sub holds extra sub-commands (worker modes) registered by property packages.
var Sub = map[string]func(args []string) int{}

// DistinctAdd counts n cases that are pairwise distinct by construction
// (enumerated, not sampled) without storing a signature for each.
func (c *Ctx) DistinctAdd(n int64) {
	c.mu.Lock()
	c.res.Counters["distinct_by_enumeration"] += n
	c.mu.Unlock()
}
