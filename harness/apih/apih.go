// Package apih assembles the real web API in-process (generated go-swagger
// server + the real DAG handler + the real middleware chain) over temporary
// stores, and provides byte-level dumps of directory trees.
package apih

import (
	"crypto/sha256"
	"encoding/hex"
	"fmt"
	"net/http"
	"os"
	"path/filepath"
	"sort"

	"github.com/ErdemOzgen/blackdagger/internal/client"
	"github.com/ErdemOzgen/blackdagger/internal/config"
	fdag "github.com/ErdemOzgen/blackdagger/internal/frontend/dag"
	"github.com/ErdemOzgen/blackdagger/internal/frontend/gen/restapi"
	"github.com/ErdemOzgen/blackdagger/internal/frontend/gen/restapi/operations"
	"github.com/ErdemOzgen/blackdagger/internal/frontend/middleware"
	"github.com/ErdemOzgen/blackdagger/internal/logger"
	"github.com/ErdemOzgen/blackdagger/internal/persistence"
	dsclient "github.com/ErdemOzgen/blackdagger/internal/persistence/client"
	"github.com/go-openapi/loads"
)

var Quiet = logger.NewLogger(logger.NewLoggerArgs{Quiet: true})

// Env is one assembled API over temporary directories.
type Env struct {
	Root       string
	DAGs       string
	Data       string
	Suspend    string
	Logs       string
	Stores     persistence.DataStores
	Client     client.Client
	Handler    http.Handler
	Executable string
}

type Auth struct {
	Basic    *middleware.AuthBasic
	Token    *middleware.AuthToken
	BasePath string
}

// New builds the environment. The middleware package keeps its configuration
// in package globals, so only one Env per process may serve at a time.
func New(root, executable string, auth Auth, latestToday bool) (*Env, error) {
	e := &Env{Root: root, DAGs: filepath.Join(root, "dags"), Data: filepath.Join(root, "data"),
		Suspend: filepath.Join(root, "suspend"), Logs: filepath.Join(root, "logs"), Executable: executable}
	for _, d := range []string{e.DAGs, e.Data, e.Suspend, e.Logs} {
		if err := os.MkdirAll(d, 0755); err != nil {
			return nil, err
		}
	}
	e.Stores = dsclient.NewDataStores(e.DAGs, e.Data, e.Suspend, dsclient.DataStoreOptions{LatestStatusToday: latestToday})
	e.Client = client.New(e.Stores, executable, root, Quiet)
	middleware.Setup(&middleware.Options{
		Handler:   http.HandlerFunc(func(w http.ResponseWriter, r *http.Request) { w.WriteHeader(http.StatusTeapot) }),
		AuthBasic: auth.Basic, AuthToken: auth.Token, Logger: Quiet, BasePath: auth.BasePath,
	})
	spec, err := loads.Analyzed(restapi.SwaggerJSON, "")
	if err != nil {
		return nil, err
	}
	api := operations.NewBlackdaggerAPI(spec)
	api.Logger = func(string, ...any) {}
	fdag.NewHandler(&fdag.NewHandlerArgs{Client: e.Client, LogEncodingCharset: "utf-8"}, []config.RemoteNode{}, "/api/v1").Configure(api)
	srv := restapi.NewServer(api)
	srv.ConfigureAPI()
	e.Handler = srv.GetHandler()
	return e, nil
}

// Dump maps every file under the given roots to "size:sha256".
func Dump(roots ...string) map[string]string {
	out := map[string]string{}
	for _, root := range roots {
		_ = filepath.Walk(root, func(p string, info os.FileInfo, err error) error {
			if err != nil {
				return nil
			}
			if info.IsDir() {
				out[p+"/"] = "dir"
				return nil
			}
			b, err := os.ReadFile(p)
			if err != nil {
				out[p] = "unreadable"
				return nil
			}
			h := sha256.Sum256(b)
			out[p] = fmt.Sprintf("%d:%s", len(b), hex.EncodeToString(h[:8]))
			return nil
		})
	}
	return out
}

// Diff lists the paths whose dump entry differs.
func Diff(a, b map[string]string) []string {
	var d []string
	for k, v := range a {
		if w, ok := b[k]; !ok {
			d = append(d, "- "+k)
		} else if w != v {
			d = append(d, "~ "+k)
		}
	}
	for k := range b {
		if _, ok := a[k]; !ok {
			d = append(d, "+ "+k)
		}
	}
	sort.Strings(d)
	return d
}
