// Package pgrp signals the process group of a child the harness started with
// Setpgid in a way that can reach that group or nobody.
//
// kill(-pid, sig) names the group by NUMBER.  Once the leader has been reaped
// and no member is left the number is free again; pid_max is 32768 in this
// sandbox and the C16 storm pass alone goes through that many ids every few
// seconds, so a "sweep the leftovers" kill issued a second or two after the
// reap can land on whatever process group was given the number in the
// meantime - another shard process of the same check, for one (that is how a
// C16 quick run once lost a shard to SIGKILL; DESIGN section 12).
//
// A pidfd taken while the child is still ours (started, not yet waited for)
// names the kernel's struct pid instead of the number, and
// pidfd_send_signal(fd, sig, NULL, PIDFD_SIGNAL_PROCESS_GROUP) signals the
// tasks whose process group IS that struct pid: the leader's group while it
// has members, ESRCH afterwards, never a later owner of the number.
package pgrp

import (
	"fmt"
	"os"
	"runtime"
	"strings"
	"sync"
	"sync/atomic"
	"syscall"
)

const (
	sysPidfdOpen            = 434 // x86_64 and the generic table
	sysPidfdSendSignal      = 424
	pidfdSignalProcessGroup = 4 // Linux >= 6.9
)

// Handle names the process group led by one child.
type Handle struct {
	pid   int
	start string // start time of the leader (field 22 of /proc/<pid>/stat) when the handle was opened
	mu    sync.Mutex
	fd    int // -1: none (pidfd_open failed) or closed
	done  bool
}

var reused atomic.Int64

// Reused reports how many signals of this process found the group's number
// owned by a different process by the time they were sent (each of them
// would have hit a stranger with kill(-pid)).
func Reused() int64 { return reused.Load() }

// Open must be called after the child has been started and before it is
// waited for (until then the number cannot have been given to anyone else).
func Open(pid int) *Handle {
	h := &Handle{pid: pid, fd: -1, start: startTime(pid)}
	if fd, _, e := syscall.Syscall(sysPidfdOpen, uintptr(pid), 0, 0); e == 0 {
		h.fd = int(fd)
		runtime.SetFinalizer(h, (*Handle).Close) // a handle nobody closed must not leak its descriptor
	}
	return h
}

// Pid returns the leader's process id (= the group's number).
func (h *Handle) Pid() int { return h.pid }

// Signal sends sig to every member of the group, if there is any.
func (h *Handle) Signal(sig syscall.Signal) error {
	if h == nil {
		return syscall.ESRCH
	}
	h.mu.Lock()
	defer h.mu.Unlock()
	if h.done {
		return syscall.ESRCH
	}
	now := startTime(h.pid)
	if now != "" && now != h.start {
		reused.Add(1)
	}
	if h.fd >= 0 {
		_, _, e := syscall.Syscall6(sysPidfdSendSignal, uintptr(h.fd), uintptr(sig), 0, pidfdSignalProcessGroup, 0, 0)
		if e == 0 {
			return nil
		}
		if e != syscall.EINVAL && e != syscall.ENOSYS {
			return e
		}
	}
	// no pidfd group signals on this kernel: by number, and only while the
	// leader (alive or a zombie) still holds it
	if now == "" || now != h.start {
		return syscall.ESRCH
	}
	return syscall.Kill(-h.pid, sig)
}

// Kill sends SIGKILL to the group.
func (h *Handle) Kill() { _ = h.Signal(syscall.SIGKILL) }

// Close releases the pidfd; signals sent afterwards reach nobody.
func (h *Handle) Close() {
	if h == nil {
		return
	}
	h.mu.Lock()
	defer h.mu.Unlock()
	h.done = true
	if h.fd >= 0 {
		_ = syscall.Close(h.fd)
		h.fd = -1
	}
}

// KillClose is the final sweep: SIGKILL to whatever is left of the group, then Close.
func (h *Handle) KillClose() {
	h.Kill()
	h.Close()
}

// StartTime returns the identity of the process that owns pid now ("" if none):
// its start time in clock ticks since boot, which no two owners of a number share.
func StartTime(pid int) string { return startTime(pid) }

func startTime(pid int) string {
	b, err := os.ReadFile(fmt.Sprintf("/proc/%d/stat", pid))
	if err != nil {
		return ""
	}
	s := string(b)
	i := strings.LastIndexByte(s, ')')
	if i < 0 {
		return ""
	}
	f := strings.Fields(s[i+1:])
	if len(f) < 20 {
		return ""
	}
	return f[19] // field 22 overall; f[0] is field 3 (state)
}
