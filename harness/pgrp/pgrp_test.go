package pgrp

// Self-test of the helper (run: cd /verif/harness && go test ./pgrp).  It makes the situation
// the package exists for - the number of a reaped group leader is handed to another group
// leader - on purpose, by walking the kernel's cyclic pid allocator once round (pid_max is 32768
// here; thread ids come from the same space, so short-lived threads do the walking), and shows
// that kill(-pid) reaches the stranger while the handle reaches nobody; and that the handle
// still reaches the leftovers of its own group.

import (
	"bufio"
	"fmt"
	"os"
	"os/exec"
	"runtime"
	"strconv"
	"strings"
	"syscall"
	"testing"
	"time"
)

func startGroup(t *testing.T, arg ...string) *exec.Cmd {
	t.Helper()
	c := exec.Command(arg[0], arg[1:]...)
	c.SysProcAttr = &syscall.SysProcAttr{Setpgid: true}
	if err := c.Start(); err != nil {
		t.Fatal(err)
	}
	return c
}

func lastPid() int {
	b, _ := os.ReadFile("/proc/loadavg")
	f := strings.Fields(string(b))
	if len(f) < 5 {
		return -1
	}
	n, _ := strconv.Atoi(f[4])
	return n
}

// burnID uses up one process/thread id: a goroutine that ends while locked to its thread takes
// the thread with it, and the next one needs a new thread.
func burnID() {
	done := make(chan struct{})
	go func() { runtime.LockOSThread(); close(done) }()
	<-done
}

func TestNumberReusedByAStranger(t *testing.T) {
	b, _ := os.ReadFile("/proc/sys/kernel/pid_max")
	pidMax, _ := strconv.Atoi(strings.TrimSpace(string(b)))
	if pidMax <= 0 || pidMax > 1<<16 || lastPid() < 0 {
		t.Skip("pid space too large to walk round in a test")
	}
	for attempt := 1; attempt <= 5; attempt++ {
		a := startGroup(t, "true")
		n := a.Process.Pid
		h := Open(n)
		_ = a.Wait()
		// walk the allocator round until it stands shortly before n ...
		for i := 0; i < 4*pidMax; i++ {
			if d := (n - lastPid() + pidMax) % pidMax; d > 0 && d <= 40 {
				break
			}
			burnID()
		}
		// ... then start group leaders until one of them is given n
		var others []*exec.Cmd
		var b2 *exec.Cmd
		for i := 0; i < 200 && b2 == nil; i++ {
			c := startGroup(t, "sleep", "30")
			switch d := (n - c.Process.Pid + pidMax) % pidMax; {
			case d == 0:
				b2 = c
			case d > pidMax/2: // past n: missed it
				others = append(others, c)
				i = 200
			default:
				others = append(others, c)
			}
		}
		for _, c := range others {
			_ = c.Process.Kill()
			_ = c.Wait()
		}
		if b2 == nil { // something else on the machine took the number: once more
			h.Close()
			continue
		}
		time.Sleep(50 * time.Millisecond) // the child sets its group right after the fork
		before := Reused()
		if err := syscall.Kill(-n, 0); err != nil {
			t.Fatalf("control: kill(-%d, 0) = %v; expected the number to name the stranger's group", n, err)
		}
		if err := h.Signal(0); err != syscall.ESRCH {
			t.Fatalf("handle of the reaped leader signalled somebody: %v", err)
		}
		h.Kill()
		time.Sleep(50 * time.Millisecond)
		if err := syscall.Kill(b2.Process.Pid, 0); err != nil {
			t.Fatalf("the stranger that got the number did not survive h.Kill(): %v", err)
		}
		if Reused() < before+2 {
			t.Fatalf("reuse not counted: %d -> %d", before, Reused())
		}
		h.Close()
		_ = b2.Process.Kill()
		_ = b2.Wait()
		t.Logf("number %d given to a new group leader (attempt %d): kill(-pid) reaches it, the handle does not", n, attempt)
		return
	}
	t.Skip("never got the same number twice (a busy machine)")
}

func TestLeftoversOfOwnGroupAreReached(t *testing.T) {
	c := exec.Command("sh", "-c", "sleep 30 & echo $!; exit 0")
	c.SysProcAttr = &syscall.SysProcAttr{Setpgid: true}
	out, _ := c.StdoutPipe()
	if err := c.Start(); err != nil {
		t.Fatal(err)
	}
	h := Open(c.Process.Pid)
	defer h.Close()
	line, _ := bufio.NewReader(out).ReadString('\n')
	left, _ := strconv.Atoi(strings.TrimSpace(line))
	_, _ = c.Process.Wait() // the leader is reaped; the sleep stays in its group
	if left == 0 || syscall.Kill(left, 0) != nil {
		t.Fatalf("no leftover to test with (%q)", line)
	}
	if err := h.Signal(0); err != nil {
		t.Fatalf("own group with a member left: %v", err)
	}
	h.Kill()
	for i := 0; i < 200; i++ {
		b, err := os.ReadFile(fmt.Sprintf("/proc/%d/stat", left))
		if err != nil || strings.Contains(string(b), ") Z ") {
			return // gone (or a zombie waiting for init)
		}
		time.Sleep(10 * time.Millisecond)
	}
	t.Fatalf("leftover %d survived the group kill", left)
}

func TestClosedHandleReachesNobody(t *testing.T) {
	c := startGroup(t, "sleep", "30")
	h := Open(c.Process.Pid)
	h.Close()
	if err := h.Signal(syscall.SIGKILL); err != syscall.ESRCH {
		t.Fatalf("closed handle: %v", err)
	}
	if syscall.Kill(c.Process.Pid, 0) != nil {
		t.Fatal("child died of a closed handle")
	}
	_ = c.Process.Kill()
	_ = c.Wait()
}
