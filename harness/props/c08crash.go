package props

// C08, crash part — the real `blackdagger start` is SIGKILLed by the ptrace
// supervisor before every watched system call of its life (and every history
// write is torn); afterwards the DAG must be reported neither running nor
// succeeded (unless everything really ran), the scheduler daemon must still
// start it at its next scheduled minute, and a second start must run all steps.

import (
	"fmt"
	"os"
	"os/exec"
	"path/filepath"
	"strings"
	"syscall"
	"time"

	"github.com/ErdemOzgen/blackdagger/internal/client"
	"github.com/ErdemOzgen/blackdagger/internal/config"
	"github.com/ErdemOzgen/blackdagger/internal/dag"
	dagsched "github.com/ErdemOzgen/blackdagger/internal/dag/scheduler"
	dsclient "github.com/ErdemOzgen/blackdagger/internal/persistence/client"
	"github.com/ErdemOzgen/blackdagger/internal/persistence/jsondb"
	"github.com/ErdemOzgen/blackdagger/internal/scheduler"
	"github.com/ErdemOzgen/blackdagger/verifh/core"
	"github.com/ErdemOzgen/blackdagger/verifh/pgrp"
	"github.com/ErdemOzgen/blackdagger/verifh/gate"
)

type c08Shape struct {
	Name    string
	Steps   int
	Handler bool
	Retry   bool // first step fails once and is retried
	Output  bool
	// SlowMs: the second step runs this long, so that it outlives its killed agent (an orphan
	// in a process group of its own) while the checks after the kill are made
	SlowMs int
}

func c08DagText(h *bdHome, self, marker string, sh c08Shape) string {
	var b strings.Builder
	b.WriteString("schedule: \"* * * * *\"\n")
	if sh.Handler {
		fmt.Fprintf(&b, "handlerOn:\n  success:\n    command: %s\n  exit:\n    command: %s\n",
			yq(fmt.Sprintf("%s c16step %s onsuccess 30", self, marker)), yq(fmt.Sprintf("%s c16step %s onexit 30", self, marker)))
	}
	b.WriteString("steps:\n")
	for i := 1; i <= sh.Steps; i++ {
		cmd := fmt.Sprintf("%s c16step %s s%d 120", self, marker, i)
		if sh.SlowMs > 0 && i == 2 {
			cmd = fmt.Sprintf("%s c16step %s s%d %d", self, marker, i, sh.SlowMs)
		}
		if sh.Retry && i == 1 {
			gatef := filepath.Join(h.root, "retry-gate")
			cmd = fmt.Sprintf("sh -c %s", yq(fmt.Sprintf("%s c16step %s s1 60; if test -e %s; then exit 0; else touch %s; exit 1; fi", self, marker, gatef, gatef)))
		}
		fmt.Fprintf(&b, "  - name: s%d\n    command: %s\n", i, cmd)
		if sh.Retry && i == 1 {
			b.WriteString("    retryPolicy:\n      limit: 2\n      intervalSec: 0\n")
		}
		if sh.Output && i == 1 {
			b.WriteString("    output: C08_OUT\n")
		}
		if i > 1 {
			fmt.Fprintf(&b, "    depends: [s%d]\n", i-1)
		}
	}
	return b.String()
}

func c08CrashBody(c *core.Ctx) {
	if gate.Sysgate() == "" {
		c.Inconclusive("sysgate not built")
		return
	}
	self, _ := os.Executable()
	shapes := []c08Shape{{Name: "3-steps+success-and-exit-handlers", Steps: 3, Handler: true}}
	if !c.Quick() {
		shapes = append(shapes, c08Shape{Name: "2-steps", Steps: 2}, c08Shape{Name: "retry+handler", Steps: 2, Handler: true, Retry: true}, c08Shape{Name: "output-variable", Steps: 2, Handler: true, Output: true}, c08Shape{Name: "1-step", Steps: 1})
	}
	tears := []float64{0.5}
	if !c.Quick() {
		tears = []float64{0.0001, 0.5, 0.9999}
	}
	idx := 0
	for _, sh := range shapes {
		h0, err := newBDHome(c, "c08c-")
		if err != nil {
			c.Inconclusive(err.Error())
			return
		}
		marker0 := filepath.Join(h0.root, "marker.txt")
		loc0 := filepath.Join(h0.dags, "crash.yaml")
		_ = os.WriteFile(loc0, []byte(c08DagText(h0, self, marker0, sh)), 0644)
		watch := func(h *bdHome) []string { return []string{h.data, h.logs, "/tmp/@blackdagger-crash-"} }
		res, err := gate.Run(gate.Opts{Watch: watch(h0), Env: h0.env(), Dir: h0.root, Timeout: 120 * time.Second}, c.Scratch, h0.bin, "start", loc0)
		os.RemoveAll(h0.root)
		if err != nil || res.TimedOut || res.ExitCode != 0 {
			c.Inconclusive(fmt.Sprintf("c08 crash: counting run failed: %v %+v", err, res))
			return
		}
		N := len(res.Events)
		if c.Shard == 0 {
			c.Count("crash_watched_syscalls", int64(N))
			for _, ev := range res.Events {
				c.SetAdd("crash_point_labels", ev.Label())
			}
		}
		type trial struct {
			k    int
			tear float64
		}
		var trials []trial
		for k := 1; k <= N; k++ {
			trials = append(trials, trial{k, 0})
			if strings.HasPrefix(res.Events[k-1].Name, "write") && strings.HasSuffix(res.Events[k-1].Path, ".dat") && res.Events[k-1].Len > 1 {
				for _, t := range tears {
					trials = append(trials, trial{k, t})
				}
			}
		}
		for _, t := range trials {
			if !c.Mine(idx) {
				idx++
				continue
			}
			label := res.Events[t.k-1].Label()
			if t.tear > 0 {
				label += "|torn"
			}
			desc := map[string]any{"shape": sh.Name, "kill_before_call": t.k, "of": N, "tear": t.tear, "syscall": res.Events[t.k-1]}
			c.Begin(idx, desc)
			c08CrashTrial(c, idx, self, sh, t.k, t.tear, label, watch, desc)
			c.End(idx)
			idx++
		}
	}
}

func c08CrashTrial(c *core.Ctx, idx int, self string, sh c08Shape, k int, tear float64, label string, watch func(*bdHome) []string, desc map[string]any) {
	h, err := newBDHome(c, "c08k-")
	if err != nil {
		c.Inconclusive(err.Error())
		return
	}
	defer os.RemoveAll(h.root)
	marker := filepath.Join(h.root, "marker.txt")
	loc := filepath.Join(h.dags, "crash.yaml")
	_ = os.WriteFile(loc, []byte(c08DagText(h, self, marker, sh)), 0644)
	kres, err := gate.Run(gate.Opts{Watch: watch(h), Env: h.env(), Dir: h.root, KillAt: k, Tear: tear, Timeout: 120 * time.Second}, c.Scratch, h.bin, "start", loc)
	if err != nil || kres.TimedOut {
		c.Inconclusive(fmt.Sprintf("c08 crash: kill run failed: %v", err))
		return
	}
	c.Eval(1)
	if !kres.Killed {
		c.Count("crash_kill_point_not_reached", 1)
		return
	}
	c.Count("crash_kills", 1)
	c08AfterKill(c, idx, self, sh, h, marker, loc, label, desc)
	c.Sig("crash", sh.Name, k, tear)
	if k%11 == 0 && tear == 0 {
		c.Sample(desc)
	}
}

// c08AfterKill: what the status query, the scheduler daemon and a new start make of a DAG
// whose run's process has just been killed.
func c08AfterKill(c *core.Ctx, idx int, self string, sh c08Shape, h *bdHome, marker, loc, label string, desc map[string]any) {
	// what actually happened before the kill
	ended := map[string]bool{}
	for _, e := range readMarker(marker) {
		if e.Kind == "END" {
			ended[e.Step] = true
		}
	}
	allRan := true
	for i := 1; i <= sh.Steps; i++ {
		if !ended[fmt.Sprintf("s%d", i)] {
			allRan = false
		}
	}
	if sh.Handler && !(ended["onexit"] && ended["onsuccess"]) {
		allRan = false
	}
	desc["steps_completed_before_the_kill"] = len(ended)
	// the recorder stands in for the executable the daemon spawns
	wrapper := filepath.Join(h.root, "recorder.sh")
	recLog := filepath.Join(h.root, "spawns.log")
	_ = os.WriteFile(wrapper, []byte("#!/bin/sh\nVERIF_C20_LOG="+recLog+" exec "+self+" c20rec \"$@\"\n"), 0755)
	stores := dsclient.NewDataStores(h.dags, h.data, filepath.Join(h.home, "suspend"), dsclient.DataStoreOptions{LatestStatusToday: true})
	cli := client.New(stores, wrapper, h.root, c13Logger)
	d, err := dag.LoadMetadata(loc)
	if err != nil {
		c.Inconclusive("c08 crash: cannot load the DAG: " + err.Error())
		return
	}
	// (a) reported status
	c.Count("obligations", 1)
	g := guard(30*time.Second, func() {
		st, err := cli.GetLatestStatus(d)
		if err != nil {
			c.Violate(idx, "crash-status-error|"+label, "after the run's process was killed the latest status of the DAG cannot be read: "+err.Error(), desc)
			return
		}
		c.SetAdd("crash_reported_states", st.Status.String())
		switch {
		case st.Status == dagsched.StatusRunning:
			c.Violate(idx, "crash-reported-running|"+label, "the run's process was killed, yet the DAG is reported running", desc)
		case st.Status == dagsched.StatusSuccess && !allRan:
			c.Violate(idx, "crash-reported-succeeded|"+label, fmt.Sprintf("the run's process was killed after %d of its steps/handlers had completed, yet the DAG is reported succeeded", len(ended)), desc)
		}
	})
	if g.panicked {
		c.Violate(idx, "crash-status-panic|"+label, "reading the latest status after the kill panicked in "+g.fn+": "+clip(g.msg, 200), desc)
	}
	// the listing the UI uses must work as well
	c.Count("obligations", 1)
	g = guard(30*time.Second, func() {
		if _, _, err := cli.GetAllStatus(); err != nil {
			c.Violate(idx, "crash-list-error|"+label, "listing the DAGs after the kill fails: "+err.Error(), desc)
		}
	})
	if g.panicked {
		c.Violate(idx, "crash-status-panic|"+label, "listing the DAGs after the kill panicked in "+g.fn, desc)
	}
	// (c) the scheduler daemon keeps handling it: the next scheduled minute must be started
	c.Count("obligations", 1)
	g = guard(60*time.Second, func() {
		cfg := &config.Config{DAGs: h.dags, WorkDir: h.root, Executable: wrapper, LogDir: h.logs}
		s := scheduler.New(cfg, c13Logger, cli)
		next := time.Now().Add(2 * time.Minute).Truncate(time.Minute)
		s.VerifTick(next)
		deadline := time.Now().Add(10 * time.Second)
		for time.Now().Before(deadline) {
			if b, _ := os.ReadFile(recLog); strings.Contains(string(b), `"start"`) {
				c.Count("crash_daemon_starts", 1)
				return
			}
			time.Sleep(10 * time.Millisecond)
		}
		c.Violate(idx, "crash-daemon-skips|"+label, "after the run's process was killed the scheduler daemon does not start the DAG at its next scheduled minute", desc)
	})
	if g.panicked {
		c.Violate(idx, "crash-daemon-panic|"+label, "the scheduler daemon panicked in "+g.fn+": "+clip(g.msg, 200), desc)
	}
	// (b) it can be started again
	os.Remove(marker)
	os.Remove(filepath.Join(h.root, "retry-gate"))
	c.Count("obligations", 1)
	code, out, to := h.run(90*time.Second, "start", loc)
	ended2 := map[string]bool{}
	for _, e := range readMarker(marker) {
		if e.Kind == "END" {
			ended2[e.Step] = true
		}
	}
	want := sh.Steps
	if sh.Handler {
		want += 2
	}
	if to || code != 0 || len(ended2) != want {
		c.Violate(idx, "crash-cannot-restart|"+label, fmt.Sprintf("after the kill a new start exits with status %d (timed out: %v) and completed %d of %d steps/handlers: %s", code, to, len(ended2), want, clip(out, 300)), desc)
	} else {
		c.Count("crash_restarts_ok", 1)
	}
}

var _ = core.Sub

// ---- orphan pass: the agent alone is killed, its running step lives on ------------------

// A SIGKILL (OOM killer, kill -9) hits the agent process only; a step command runs in a
// process group of its own and survives it.  The ptrace supervisor of the crash pass takes the
// whole process tree down, so this pass kills the agent with a plain kill(2) while its second
// step is executing, and then makes the same checks: status, daemon, new start.
func c08OrphanBody(c *core.Ctx) {
	self, _ := os.Executable()
	shapes := []c08Shape{{Name: "orphan-step", Steps: 2, SlowMs: 2500}, {Name: "orphan-step+handlers", Steps: 2, Handler: true, SlowMs: 2500}, {Name: "orphan-step+output", Steps: 2, Output: true, SlowMs: 2500}}
	// a negative delay: the same kill, but the checks are made while the killed agent has not
	// been reaped by its parent yet (a zombie: its process ID still exists)
	delays := []int{0, 40, 400, -40}
	idx := 0
	for _, sh := range shapes {
		for _, delay := range delays {
			unreaped := delay < 0
			if unreaped {
				delay = -delay
			}
			if !c.Mine(idx) {
				idx++
				continue
			}
			desc := map[string]any{"shape": sh.Name, "agent_killed_ms_after_the_step_began": delay, "agent_not_reaped_during_the_checks": unreaped}
			c.Begin(idx, desc)
			func() {
				h, err := newBDHome(c, "c08o-")
				if err != nil {
					c.Inconclusive(err.Error())
					return
				}
				defer os.RemoveAll(h.root)
				marker := filepath.Join(h.root, "marker.txt")
				loc := filepath.Join(h.dags, "crash.yaml")
				_ = os.WriteFile(loc, []byte(c08DagText(h, self, marker, sh)), 0644)
				cmd := exec.Command(h.bin, "start", loc)
				cmd.Env = h.env()
				cmd.Dir = h.root
				cmd.SysProcAttr = &syscall.SysProcAttr{Setpgid: true}
				if err := cmd.Start(); err != nil {
					c.Inconclusive("c08 orphan: " + err.Error())
					return
				}
				grp := pgrp.Open(cmd.Process.Pid)
				defer grp.Close()
				waited := make(chan struct{})
				reap := make(chan struct{})
				go func() { <-reap; _ = cmd.Wait(); close(waited) }()
				if !unreaped {
					close(reap)
				}
				began := false
				for i := 0; i < 4000 && !began; i++ {
					for _, e := range readMarker(marker) {
						if e.Kind == "BEGIN" && e.Step == "s2" {
							began = true
						}
					}
					if !began {
						time.Sleep(5 * time.Millisecond)
					}
				}
				if !began {
					grp.Kill()
					if unreaped {
						close(reap)
					}
					c.Inconclusive("c08 orphan: the second step never began")
					return
				}
				time.Sleep(time.Duration(delay) * time.Millisecond)
				_ = syscall.Kill(cmd.Process.Pid, syscall.SIGKILL) // the agent only
				label := "orphan|" + sh.Name
				if unreaped {
					label = "orphan-unreaped|" + sh.Name
					dead := false
					for i := 0; i < 2000 && !dead; i++ {
						b, _ := os.ReadFile(fmt.Sprintf("/proc/%d/stat", cmd.Process.Pid))
						if j := strings.LastIndexByte(string(b), ')'); j >= 0 && strings.HasPrefix(string(b[j+1:]), " Z") {
							dead = true
						} else {
							time.Sleep(time.Millisecond)
						}
					}
					if !dead {
						close(reap)
						<-waited
						c.Inconclusive("c08 orphan: the killed agent did not become a zombie")
						return
					}
					c.Count("orphan_checks_with_the_agent_unreaped", 1)
					defer func() { close(reap); <-waited }()
				} else {
					<-waited
				}
				c.Eval(1)
				c.Count("orphan_kills", 1)
				c08AfterKill(c, idx, self, sh, h, marker, loc, label, desc)
				c.Sig("orphan", sh.Name, delay, unreaped)
				c.Sample(desc)
			}()
			c.End(idx)
			idx++
		}
	}
}

// ---- fault pass: a transient accept(2) failure on the run's status socket ---------------

func c08FaultBody(c *core.Ctx) {
	if gate.Sysgate() == "" {
		c.Inconclusive("sysgate not built")
		return
	}
	self, _ := os.Executable()
	trial := func(idx, failAt, errno int, label string) (*gate.Result, bool) {
		h, err := newBDHome(c, "c08f-")
		if err != nil {
			c.Inconclusive(err.Error())
			return nil, false
		}
		defer os.RemoveAll(h.root)
		marker := filepath.Join(h.root, "marker.txt")
		loc := filepath.Join(h.dags, "live.yaml")
		_ = os.WriteFile(loc, []byte("maxCleanUpTimeSec: 1\nsteps:\n  - name: main\n    command: "+yq(fmt.Sprintf("%s c05proc %s main exit-on-term", self, marker))+"\n"), 0644)
		desc := map[string]any{"fail_system_call": failAt, "errno": errno, "label": label}
		resCh := make(chan *gate.Result, 1)
		go func() {
			r, _ := gate.Run(gate.Opts{Watch: []string{h.data, h.logs, "/tmp/@blackdagger-live-"}, Env: h.env(), Dir: h.root, FailAt: failAt, Errno: errno, Timeout: 120 * time.Second}, c.Scratch, h.bin, "start", loc)
			resCh <- r
		}()
		began := false
		for i := 0; i < 3000 && !began; i++ {
			for _, e := range readProcMarker(marker) {
				if e.Kind == "BEGIN" && e.Name == "main" {
					began = true
				}
			}
			select {
			case r := <-resCh:
				// the run ended before its step began
				if failAt > 0 {
					c.Violate(idx, "fault-run-died|"+label, fmt.Sprintf("a single failing accept (errno %d) on the status socket ended the run before its step began", errno), desc)
				}
				return r, false
			default:
			}
			time.Sleep(10 * time.Millisecond)
		}
		if !began {
			c.Inconclusive("c08 fault: the step never began")
			return <-resCh, false
		}
		time.Sleep(400 * time.Millisecond)
		if failAt > 0 {
			c.Eval(1)
			c.Count("fault_trials", 1)
			stores := dsclient.NewDataStores(h.dags, h.data, filepath.Join(h.home, "suspend"), dsclient.DataStoreOptions{LatestStatusToday: true})
			cli := client.New(stores, "/bin/false", h.root, c13Logger)
			d, err := dag.LoadMetadata(loc)
			if err == nil {
				c.Count("obligations", 2)
				if st, err := cli.GetLatestStatus(d); err != nil || st.Status != dagsched.StatusRunning {
					got := "error"
					if st != nil {
						got = st.Status.String()
					}
					c.Violate(idx, "fault-live-status|"+label, fmt.Sprintf("after one accept on the run's status socket failed (errno %d) the run, which is in progress, is reported %s (err=%v)", errno, got, err), desc)
				}
				if st, err := cli.GetCurrentStatus(d); err != nil || st.Status != dagsched.StatusRunning {
					c.Violate(idx, "fault-current-status|"+label, fmt.Sprintf("after one failing accept (errno %d) the live status of the run in progress is not served", errno), desc)
				}
			}
		}
		// the run must still be stoppable through its socket
		code, out, _ := h.run(30*time.Second, "stop", loc)
		var res *gate.Result
		select {
		case res = <-resCh:
		case <-time.After(45 * time.Second):
			if failAt > 0 {
				c.Violate(idx, "fault-unstoppable|"+label, fmt.Sprintf("after one failing accept (errno %d) `blackdagger stop` (exit %d) no longer ends the run: %s", errno, code, clip(out, 200)), desc)
			} else {
				c.Inconclusive("c08 fault: the counting run could not be stopped")
			}
			res = <-resCh
		}
		c.Sig("fault", failAt, errno)
		return res, true
	}
	// where are the accepts?
	res, ok := trial(0, 0, 0, "count")
	if !ok || res == nil {
		c.Inconclusive("c08 fault: counting run failed")
		return
	}
	var accepts []int
	for _, ev := range res.Events {
		if ev.Name == "accept" {
			accepts = append(accepts, ev.K)
		}
	}
	if len(accepts) == 0 {
		c.Inconclusive("c08 fault: no accept seen on the status socket")
		return
	}
	c.Count("accept_calls_seen", int64(len(accepts)))
	idx := 0
	for ai, k := range accepts {
		if ai >= 3 {
			break
		}
		for _, errno := range []int{24, 23, 105, 103} { // EMFILE ENFILE ENOBUFS ECONNABORTED
			if c.Mine(idx) {
				c.Begin(idx, map[string]any{"accept_index": ai, "k": k, "errno": errno})
				trial(idx, k, errno, fmt.Sprintf("accept#%d|errno%d", ai, errno))
				c.End(idx)
			}
			idx++
		}
	}
}

// ---- C10, killed-run pass: retry of the record a killed process leaves behind ------------

func c10KilledBody(c *core.Ctx) {
	if gate.Sysgate() == "" {
		c.Inconclusive("sysgate not built")
		return
	}
	self, _ := os.Executable()
	sh := c08Shape{Name: "3-steps+handlers", Steps: 3, Handler: true}
	h0, err := newBDHome(c, "c10c-")
	if err != nil {
		c.Inconclusive(err.Error())
		return
	}
	loc0 := filepath.Join(h0.dags, "crash.yaml")
	_ = os.WriteFile(loc0, []byte(c08DagText(h0, self, filepath.Join(h0.root, "marker.txt"), sh)), 0644)
	watch := func(h *bdHome) []string { return []string{h.data, h.logs, "/tmp/@blackdagger-crash-"} }
	res, err := gate.Run(gate.Opts{Watch: watch(h0), Env: h0.env(), Dir: h0.root, Timeout: 120 * time.Second}, c.Scratch, h0.bin, "start", loc0)
	os.RemoveAll(h0.root)
	if err != nil || res.TimedOut || res.ExitCode != 0 {
		c.Inconclusive("c10 killed: counting run failed")
		return
	}
	N := len(res.Events)
	stride := c.Pick(3, 1)
	idx := 0
	for k := 1 + int(c.Seed)%stride; k <= N; k += stride {
		if !c.Mine(idx) {
			idx++
			continue
		}
		label := res.Events[k-1].Label()
		desc := map[string]any{"kill_before_call": k, "of": N, "syscall": res.Events[k-1]}
		c.Begin(idx, desc)
		func() {
			h, err := newBDHome(c, "c10k-")
			if err != nil {
				return
			}
			defer os.RemoveAll(h.root)
			marker := filepath.Join(h.root, "marker.txt")
			loc := filepath.Join(h.dags, "crash.yaml")
			_ = os.WriteFile(loc, []byte(c08DagText(h, self, marker, sh)), 0644)
			kres, err := gate.Run(gate.Opts{Watch: watch(h), Env: h.env(), Dir: h.root, KillAt: k, Timeout: 120 * time.Second}, c.Scratch, h.bin, "start", loc)
			if err != nil || kres.TimedOut || !kres.Killed {
				return
			}
			c.Eval(1)
			req := h.lastRequestID(loc)
			if req == "" {
				c.Count("killed_before_anything_was_recorded", 1)
				return
			}
			done := map[string]bool{}
			for _, e := range readMarker(marker) {
				if e.Kind == "END" {
					done[e.Step] = true
				}
			}
			os.Remove(marker)
			code, out, to := h.run(90*time.Second, "retry", "--req="+req, loc)
			c.Count("obligations", 3)
			c.Count("killed_runs_retried", 1)
			if to || code != 0 {
				c.Violate(idx, "killed-run-retry-fails|"+label, fmt.Sprintf("the retry of a run whose process had been killed exits with status %d (timed out: %v): %s", code, to, clip(out, 300)), desc)
				return
			}
			ran := map[string]bool{}
			for _, e := range readMarker(marker) {
				if e.Kind == "END" {
					ran[e.Step] = true
				}
			}
			rec := jsondb.New(h.data, false).ReadStatusRecent(loc, 5)
			recorded := map[string]string{}
			for _, sf := range rec {
				if sf.Status.RequestID == req {
					for _, n := range sf.Status.Nodes {
						recorded[n.Step.Name] = n.Status.String()
					}
				}
			}
			desc["recorded"] = recorded
			desc["completed_before_kill"], desc["executed_by_retry"] = len(done), len(ran)
			for i := 1; i <= sh.Steps; i++ {
				n := fmt.Sprintf("s%d", i)
				switch {
				case recorded[n] == "finished" && ran[n]:
					c.Violate(idx, "killed-run-retry-reran|"+label, fmt.Sprintf("step %s was recorded finished by the killed run but the retry executed it again", n), desc)
				case recorded[n] != "finished" && !ran[n]:
					c.Violate(idx, "killed-run-retry-skipped|"+label, fmt.Sprintf("step %s was recorded %q by the killed run but the retry did not execute it", n, recorded[n]), desc)
				}
			}
			if len(jsondb.New(h.data, false).ReadStatusRecent(loc, 5)) < 2 {
				c.Violate(idx, "killed-run-retry-not-recorded|"+label, "the retry of the killed run is not recorded as a new run", desc)
			}
			c.Sig("killed", k)
			if k%7 == 0 {
				c.Sample(desc)
			}
		}()
		c.End(idx)
		idx++
	}
}
