package props

import (
	"errors"
	"fmt"
	"math/rand"
	"os"
	"path/filepath"
	"sort"
	"strings"
	"sync"
	"sync/atomic"
	"time"

	"github.com/ErdemOzgen/blackdagger/internal/dag/scheduler"
	"github.com/ErdemOzgen/blackdagger/internal/persistence"
	"github.com/ErdemOzgen/blackdagger/internal/persistence/jsondb"
	"github.com/ErdemOzgen/blackdagger/internal/persistence/model"
	"github.com/ErdemOzgen/blackdagger/internal/verifhook"
	"github.com/ErdemOzgen/blackdagger/verifh/core"
)

// ---- reference model ----------------------------------------------------------

type hRun struct {
	ReqID   string    `json:"req"`
	Start   time.Time `json:"start"`
	LastID  int       `json:"lastWrite"`
	AgeDays int       `json:"ageDays"`
}

type hModel struct {
	runs map[string][]*hRun // dagFile -> runs
}

type hOp struct {
	Op    string `json:"op"`
	Dag   string `json:"dag,omitempty"`
	To    string `json:"to,omitempty"`
	Req   string `json:"req,omitempty"`
	Start string `json:"start,omitempty"`
	N     int    `json:"n,omitempty"`
	Size  int    `json:"size,omitempty"`
	Days  int    `json:"days,omitempty"`
}

var hostileNames = []string{"a", "ab", "a-b", "a.b", "a b", "x_c", "x", "20240101.10:00:00", "a*", "a?", "a[1]", "a]", `a\b`, "ñandú", "a_c", "b.20240101"}

// tainted holds DAG files whose history was carried over (Rename) from a name
// with glob metacharacters: what is missing there is the same defect.
var tainted = map[string]bool{}

func nameClass(dagFile string) string {
	// the whole path takes part in the glob pattern
	if strings.ContainsAny(dagFile, `*?[\`) || tainted[dagFile] {
		return "glob-metachar"
	}
	return "plain"
}

// mkStatus builds a status whose write id is recorded three times — early in
// the encoded line (Pid), at both ends of the bulk (Log) and at the very end
// (Params) — so that a line spliced from two different writes is recognisable.
func mkStatus(dagFile, reqID string, start time.Time, id, size int) *model.Status {
	tag := fmt.Sprintf("<%d>", id)
	return &model.Status{RequestID: reqID, Name: strings.TrimSuffix(filepath.Base(dagFile), ".yaml"),
		Status: scheduler.StatusSuccess, StatusText: "finished", PID: model.PID(id), StartedAt: start.Format(time.RFC3339),
		Params: fmt.Sprintf("w%d", id), Log: tag + strings.Repeat("é", size/2) + tag}
}

// writeID returns the id of the write a status came from, -1 if it carries
// none, -2 if its copies of the id disagree (a line spliced from two writes).
func writeID(st *model.Status) int {
	var id int
	if st == nil {
		return -1
	}
	if _, err := fmt.Sscanf(st.Params, "w%d", &id); err != nil {
		return -1
	}
	tag := fmt.Sprintf("<%d>", id)
	if int(st.PID) != id || !strings.HasPrefix(st.Log, tag) || !strings.HasSuffix(st.Log, tag) {
		return -2
	}
	return id
}

// timeClass tells whether two runs of the DAG share a second (but not the ms).
func timeClass(runs []*hRun) string {
	for i := range runs {
		for j := i + 1; j < len(runs); j++ {
			a, b := runs[i].Start, runs[j].Start
			if a.Truncate(time.Second).Equal(b.Truncate(time.Second)) && !a.Equal(b) {
				return "same-second"
			}
		}
	}
	return "distinct-seconds"
}

// expectedRecent returns tie groups (identical ms are an unordered tie), newest first.
func expectedRecent(runs []*hRun) [][]*hRun {
	rs := append([]*hRun(nil), runs...)
	sort.SliceStable(rs, func(i, j int) bool { return rs[i].Start.After(rs[j].Start) })
	var groups [][]*hRun
	for _, r := range rs {
		if n := len(groups); n > 0 && groups[n-1][0].Start.Equal(r.Start) {
			groups[n-1] = append(groups[n-1], r)
		} else {
			groups = append(groups, []*hRun{r})
		}
	}
	return groups
}

// matchRecent checks got (req ids, newest first) against the tie groups for the first n.
func matchRecent(groups [][]*hRun, got []string, n int) bool {
	total := 0
	for _, g := range groups {
		total += len(g)
	}
	want := n
	if total < n {
		want = total
	}
	if len(got) != want {
		return false
	}
	pos := 0
	for _, g := range groups {
		if pos >= want {
			break
		}
		take := len(g)
		if pos+take > want {
			take = want - pos
		}
		in := map[string]bool{}
		for _, r := range g {
			in[r.ReqID] = true
		}
		seen := map[string]bool{}
		for _, id := range got[pos : pos+take] {
			if !in[id] || seen[id] {
				return false
			}
			seen[id] = true
		}
		pos += take
	}
	return true
}

type c06Env struct {
	c        *core.Ctx
	idx      int
	root     string
	server   *jsondb.JSONDB // long-lived instance (file cache in play), latestStatusToday=false
	serverT  *jsondb.JSONDB // latestStatusToday=true
	m        *hModel
	ops      []hOp
	nextID   int
	nextReq  int
	seenKeys map[string]bool
	nobl     int64
}

func (e *c06Env) violate(key, what string) {
	if e.seenKeys[key] {
		return
	}
	e.seenKeys[key] = true
	e.c.Violate(e.idx, key, what, map[string]any{"ops": e.ops})
}

// queryAll asks every query for every DAG and compares with the model.
func (e *c06Env) queryAll(db *jsondb.JSONDB, dbToday *jsondb.JSONDB, removed map[string][]string, tag string) {
	for dagFile, runs := range e.m.runs {
		nc := nameClass(dagFile)
		tc := timeClass(runs)
		for _, r := range runs {
			e.nobl++
			sf, err := db.FindByRequestID(dagFile, r.ReqID)
			if err != nil {
				e.violate(nc+"|find|missing", fmt.Sprintf("%s: FindByRequestID(%q, %s) failed: %v (model: last write w%d)", tag, filepath.Base(dagFile), r.ReqID, err, r.LastID))
				continue
			}
			if id := writeID(sf.Status); id != r.LastID || sf.Status.RequestID != r.ReqID {
				e.violate(nc+"|find|stale", fmt.Sprintf("%s: FindByRequestID(%q, %s) returned write w%d of run %s, the last recorded status is w%d", tag, filepath.Base(dagFile), r.ReqID, id, sf.Status.RequestID, r.LastID))
			}
		}
		for _, id := range removed[dagFile] {
			e.nobl++
			if sf, err := db.FindByRequestID(dagFile, id); err == nil {
				e.violate(nc+"|find|ghost", fmt.Sprintf("%s: FindByRequestID(%q, %s) still returns a run (w%d) that was removed / belongs elsewhere", tag, filepath.Base(dagFile), id, writeID(sf.Status)))
			}
		}
		groups := expectedRecent(runs)
		for _, n := range []int{1, 2, len(runs), len(runs) + 3} {
			if n <= 0 {
				continue
			}
			e.nobl++
			got := db.ReadStatusRecent(dagFile, n)
			var ids []string
			stale := ""
			for _, sf := range got {
				ids = append(ids, sf.Status.RequestID)
				for _, r := range runs {
					if r.ReqID == sf.Status.RequestID && writeID(sf.Status) != r.LastID {
						stale = fmt.Sprintf("run %s returned with w%d, last recorded w%d", r.ReqID, writeID(sf.Status), r.LastID)
					}
				}
			}
			if !matchRecent(groups, ids, n) {
				e.violate(nc+"|"+tc+"|recent", fmt.Sprintf("%s: ReadStatusRecent(%q, %d) returned %v, expected (newest first) %s", tag, filepath.Base(dagFile), n, ids, groupsText(groups)))
			} else if stale != "" {
				e.violate(nc+"|recent|stale", fmt.Sprintf("%s: ReadStatusRecent(%q, %d): %s", tag, filepath.Base(dagFile), n, stale))
			}
		}
		// latest-status query, both configurations
		day0 := time.Now().UTC().Format("20060102")
		for _, today := range []bool{false, true} {
			q := db
			if today {
				q = dbToday
			}
			st, err := q.ReadStatusToday(dagFile)
			if time.Now().UTC().Format("20060102") != day0 {
				continue // the date changed while asking
			}
			e.nobl++
			var cand []*hRun
			for _, r := range runs {
				if !today || r.Start.UTC().Format("20060102") == day0 {
					cand = append(cand, r)
				}
			}
			if len(cand) == 0 {
				if err == nil {
					e.violate(nc+"|today|ghost", fmt.Sprintf("%s: ReadStatusToday(%q, today=%v) returned run %s although no run qualifies", tag, filepath.Base(dagFile), today, st.RequestID))
				} else if !errors.Is(err, persistence.ErrNoStatusDataToday) && !errors.Is(err, persistence.ErrNoStatusData) {
					e.violate(nc+"|today|error", fmt.Sprintf("%s: ReadStatusToday(%q, today=%v) failed with %v although there is simply no run", tag, filepath.Base(dagFile), today, err))
				}
				continue
			}
			g := expectedRecent(cand)[0]
			if err != nil {
				e.violate(nc+"|"+timeClass(cand)+"|today-missing", fmt.Sprintf("%s: ReadStatusToday(%q, today=%v) failed: %v; expected run %s", tag, filepath.Base(dagFile), today, err, g[0].ReqID))
				continue
			}
			ok := false
			for _, r := range g {
				if r.ReqID == st.RequestID && writeID(st) == r.LastID {
					ok = true
				}
			}
			if !ok {
				e.violate(nc+"|"+timeClass(cand)+"|today", fmt.Sprintf("%s: ReadStatusToday(%q, today=%v) returned run %s w%d, expected the most recently started run %s w%d", tag, filepath.Base(dagFile), today, st.RequestID, writeID(st), g[0].ReqID, g[0].LastID))
			}
		}
	}
}

func groupsText(groups [][]*hRun) string {
	var parts []string
	for _, g := range groups {
		var ids []string
		for _, r := range g {
			ids = append(ids, r.ReqID+"@"+r.Start.Format("15:04:05.000"))
		}
		parts = append(parts, "{"+strings.Join(ids, " ")+"}")
	}
	return strings.Join(parts, " ")
}

func (e *c06Env) newReq() string {
	e.nextReq++
	return fmt.Sprintf("%04x%04x-r", e.idx&0xffff, e.nextReq)
}

func (e *c06Env) record(dagFile string, start time.Time, nWrites, size, age int) *hRun {
	req := e.newReq()
	db := jsondb.New(filepath.Join(e.root, "data"), false)
	e.ops = append(e.ops, hOp{Op: "record", Dag: filepath.Base(dagFile), Req: req, Start: start.Format("20060102 15:04:05.000"), N: nWrites, Size: size, Days: age})
	if err := db.Open(dagFile, start, req); err != nil {
		e.violate(nameClass(dagFile)+"|open|error", fmt.Sprintf("Open(%q) failed: %v", filepath.Base(dagFile), err))
		return nil
	}
	last := 0
	for i := 0; i < nWrites; i++ {
		e.nextID++
		last = e.nextID
		if err := db.Write(mkStatus(dagFile, req, start, last, size)); err != nil {
			e.violate(nameClass(dagFile)+"|write|error", fmt.Sprintf("Write failed: %v", err))
		}
	}
	if err := db.Close(); err != nil {
		e.violate(nameClass(dagFile)+"|close|error", fmt.Sprintf("Close(%q) failed: %v", filepath.Base(dagFile), err))
	}
	r := &hRun{ReqID: req, Start: start, LastID: last, AgeDays: age}
	e.m.runs[dagFile] = append(e.m.runs[dagFile], r)
	e.setAge(dagFile, r)
	return r
}

// setAge puts the run's file mtime age days (+6h, never near a day boundary) into the past.
func (e *c06Env) setAge(dagFile string, r *hRun) {
	if r.AgeDays == 0 {
		return
	}
	fresh := jsondb.New(filepath.Join(e.root, "data"), false)
	sf, err := fresh.FindByRequestID(dagFile, r.ReqID)
	if err != nil {
		return
	}
	t := time.Now().Add(-time.Duration(r.AgeDays)*24*time.Hour - 6*time.Hour)
	_ = os.Chtimes(sf.File, t, t)
}

func c06Sequence(c *core.Ctx, idx int, r *rand.Rand, nops int) {
	root, err := os.MkdirTemp(c.Scratch, "c06-")
	if err != nil {
		c.Inconclusive("mkdir: " + err.Error())
		return
	}
	defer os.RemoveAll(root)
	e := &c06Env{c: c, idx: idx, root: root, m: &hModel{runs: map[string][]*hRun{}}, seenKeys: map[string]bool{}}
	e.server = jsondb.New(filepath.Join(root, "data"), false)
	e.serverT = jsondb.New(filepath.Join(root, "data"), true)
	// DAG set: 2-5 names from the hostile pool; sometimes the same base name in two directories
	nd := 2 + r.Intn(4)
	var dags []string
	hostile := r.Intn(100) < 35
	for len(dags) < nd {
		name := hostileNames[r.Intn(len(hostileNames))]
		if !hostile && strings.ContainsAny(name, `*?[]\`) {
			continue
		}
		dir := "dags"
		if r.Intn(6) == 0 {
			dir = "dags2"
		}
		f := filepath.Join(root, dir, name+".yaml")
		dup := false
		for _, d := range dags {
			if d == f {
				dup = true
			}
		}
		if !dup {
			dags = append(dags, f)
		}
	}
	for _, d := range dags {
		e.m.runs[d] = nil
	}
	now := time.Now().UTC()
	base := time.Date(now.Year(), now.Month(), now.Day(), 12, 0, 0, 0, time.UTC)
	offsets := []time.Duration{0, time.Millisecond, 100 * time.Millisecond, 500 * time.Millisecond, 999 * time.Millisecond, time.Second, 1500 * time.Millisecond,
		59 * time.Second, time.Minute, 61 * time.Second, time.Hour, -12*time.Hour - time.Millisecond, -12 * time.Hour, -12*time.Hour + 3*time.Millisecond,
		-36 * time.Hour, -24 * time.Hour, -11*time.Hour - 59*time.Minute - 59*time.Second - 999*time.Millisecond}
	removed := map[string][]string{}
	renames := 0
	for i := 0; i < nops; i++ {
		var live []string
		for d := range e.m.runs {
			live = append(live, d)
		}
		sort.Strings(live)
		d := live[r.Intn(len(live))]
		switch x := r.Intn(100); {
		case x < 55 || len(e.m.runs[d]) == 0:
			start := base.Add(offsets[r.Intn(len(offsets))])
			if r.Intn(3) == 0 {
				start = start.Add(time.Duration(r.Intn(3000)) * time.Millisecond)
			}
			size := []int{0, 100, 100, 1000, 5000, 70000}[r.Intn(6)]
			if c.Quick() && size > 5000 {
				size = 5000
			}
			age := []int{0, 0, 0, 2, 5, 10, 40}[r.Intn(7)]
			e.record(d, start, 1+r.Intn(4), size, age)
		case x < 70:
			runs := e.m.runs[d]
			rr := runs[r.Intn(len(runs))]
			e.nextID++
			e.ops = append(e.ops, hOp{Op: "update", Dag: filepath.Base(d), Req: rr.ReqID})
			if err := e.server.Update(d, rr.ReqID, mkStatus(d, rr.ReqID, rr.Start, e.nextID, 50)); err != nil {
				e.violate(nameClass(d)+"|update|error", fmt.Sprintf("Update(%q, %s) failed: %v", filepath.Base(d), rr.ReqID, err))
			} else {
				rr.LastID = e.nextID
				e.setAge(d, rr) // the update refreshed the mtime: restore the run's age
			}
		case x < 80 && renames < 4:
			renames++
			nn := filepath.Join(filepath.Dir(d), fmt.Sprintf("%s-r%d.yaml", hostileNames[r.Intn(len(hostileNames))], renames))
			if !hostile && strings.ContainsAny(nn, `*?[]\`) {
				nn = filepath.Join(filepath.Dir(d), fmt.Sprintf("ren%d.yaml", renames))
			}
			e.ops = append(e.ops, hOp{Op: "rename", Dag: filepath.Base(d), To: filepath.Base(nn)})
			if err := e.server.Rename(d, nn); err != nil {
				e.violate(nameClass(d)+"|rename|error", fmt.Sprintf("Rename(%q -> %q) failed: %v", filepath.Base(d), filepath.Base(nn), err))
			}
			for _, rr := range e.m.runs[d] {
				removed[d] = append(removed[d], rr.ReqID)
			}
			if nameClass(d) == "glob-metachar" {
				tainted[nn] = true
			}
			e.m.runs[nn] = e.m.runs[d]
			e.m.runs[d] = nil
			// mtimes survive a rename
		case x < 92:
			days := []int{1, 3, 7, 30}[r.Intn(4)]
			e.ops = append(e.ops, hOp{Op: "remove-old", Dag: filepath.Base(d), Days: days})
			if err := e.server.RemoveOld(d, days); err != nil {
				e.violate(nameClass(d)+"|removeold|error", fmt.Sprintf("RemoveOld(%q, %d) failed: %v", filepath.Base(d), days, err))
			}
			// one-sided: runs younger than the retention must survive; older ones are re-synchronised
			fresh := jsondb.New(filepath.Join(root, "data"), false)
			var keep []*hRun
			for _, rr := range e.m.runs[d] {
				if rr.AgeDays < days {
					keep = append(keep, rr)
					continue
				}
				if _, err := fresh.FindByRequestID(d, rr.ReqID); err == nil {
					keep = append(keep, rr)
				} else {
					removed[d] = append(removed[d], rr.ReqID)
				}
			}
			e.m.runs[d] = keep
		default:
			e.ops = append(e.ops, hOp{Op: "remove-all", Dag: filepath.Base(d)})
			if err := e.server.RemoveAll(d); err != nil {
				e.violate(nameClass(d)+"|removeall|error", fmt.Sprintf("RemoveAll(%q) failed: %v", filepath.Base(d), err))
			}
			for _, rr := range e.m.runs[d] {
				removed[d] = append(removed[d], rr.ReqID)
			}
			e.m.runs[d] = nil
		}
		e.queryAll(e.server, e.serverT, removed, fmt.Sprintf("after op %d (%s)", i, e.ops[len(e.ops)-1].Op))
	}
	// a fresh instance (cold cache) re-asks everything
	e.queryAll(jsondb.New(filepath.Join(root, "data"), false), jsondb.New(filepath.Join(root, "data"), true), removed, "fresh instance at the end")
	c.Eval(1)
	c.Count("obligations", e.nobl)
	c.Count("operations", int64(len(e.ops)))
	for _, o := range e.ops {
		c.Count("op:"+o.Op, 1)
	}
	for d := range e.m.runs {
		c.SetAdd("name_classes", nameClass(d))
	}
	c.Sig(fmt.Sprint(e.ops))
	c.Sample(map[string]any{"dags": baseNames(dags), "ops": e.ops})
}

func baseNames(fs []string) []string {
	var out []string
	for _, f := range fs {
		out = append(out, filepath.Base(filepath.Dir(f))+"/"+filepath.Base(f))
	}
	return out
}

func c06Body(c *core.Ctx) {
	if c.Mode == "quiesce" {
		c06Quiesce(c)
		return
	}
	if c.Mode == "linear" {
		c06Linear(c)
		return
	}
	if c.Mode == "forced" {
		c06Forced(c)
		return
	}
	// thorough: 15x / 15x the sequences of quick at twice the length (an hour at 50x; the
	// marginal sequence finds nothing the first thousands did not)
	n := c.Pick(400, 6000)
	nops := c.Pick(30, 60)
	if c.Mode == "race" {
		n = c.Pick(40, 600)
	}
	base := 0
	if c.Mode == "race" {
		base = 1 << 20
	}
	for i := 0; i < n; i++ {
		idx := base + i
		if !c.Mine(idx) {
			continue
		}
		c.Begin(idx, map[string]any{"sequence": idx})
		c06Sequence(c, idx, c.Rand("seq", idx), nops)
		c.End(idx)
	}
}

// c06Quiesce: readers on a long-lived (caching) store race a burst of manual
// updates made through another instance; nothing is judged while they race,
// but once everybody has stopped every query must return the last update —
// a stale cache entry that outlives the race is a wrong answer for a history
// that is perfectly sequential from then on.
func c06Quiesce(c *core.Ctx) {
	rounds := c.Pick(60, 1500)
	if c.Race {
		rounds = c.Pick(24, 300)
	}
	for idx := 0; idx < rounds; idx++ {
		if !c.Mine(idx) {
			continue
		}
		r := c.Rand("quiesce", idx)
		root, err := os.MkdirTemp(c.Scratch, "c06q-")
		if err != nil {
			c.Inconclusive("mkdtemp")
			return
		}
		dagFile := filepath.Join(root, "dags", "q.yaml")
		data := filepath.Join(root, "data")
		size := []int{2000, 200000, 600000, 1200000}[r.Intn(4)]
		desc := map[string]any{"round": idx, "payload": size}
		c.Begin(idx, desc)
		start := time.Now().UTC().Add(-time.Hour)
		req := fmt.Sprintf("%08d-q", idx)
		w := jsondb.New(data, false)
		var idc atomic.Int64 // the hook runs on a reader goroutine
		idc.Store(int64(idx * 100))
		_ = w.Open(dagFile, start, req)
		_ = w.Write(mkStatus(dagFile, req, start, int(idc.Load()), size))
		_ = w.Close()
		reader := jsondb.New(data, false) // the server's instance
		_ = reader.ReadStatusRecent(dagFile, 1)
		stop := make(chan struct{})
		done := make(chan struct{}, 3)
		for g := 0; g < 3; g++ {
			go func(g int) {
				defer func() { done <- struct{}{} }()
				for {
					select {
					case <-stop:
						return
					default:
					}
					switch g {
					case 0:
						_ = reader.ReadStatusRecent(dagFile, 1)
					case 1:
						_, _ = reader.ReadStatusToday(dagFile)
					default:
						_ = reader.ReadStatusRecent(dagFile, 3)
					}
				}
			}(g)
		}
		upd := jsondb.New(data, false) // another process (agent, CLI)
		// Controlled interleaving in half of the rounds: the first time the
		// server's store has loaded the file and is about to cache it, the other
		// instance appends an update (between the load and the store).
		var hookOnce sync.Once
		hooked := idx%2 == 0
		if hooked {
			verifhook.Set(func(name string, arg any) {
				if name != "filecache.loaded" {
					return
				}
				if f, _ := arg.(string); !strings.Contains(f, filepath.Base(root)) {
					return
				}
				hookOnce.Do(func() {
					_ = upd.Update(dagFile, req, mkStatus(dagFile, req, start, int(idc.Add(1)), size))
					c.Count("updates_between_load_and_cache_store", 1)
				})
			})
		}
		nupd := 2 + r.Intn(3)
		if hooked {
			nupd = 1
		}
		for u := 0; u < nupd; u++ {
			if err := upd.Update(dagFile, req, mkStatus(dagFile, req, start, int(idc.Add(1)), size)); err != nil {
				c.Inconclusive("c06 quiesce: update failed: " + err.Error())
			}
			time.Sleep(time.Duration(r.Intn(3000)) * time.Microsecond)
		}
		if hooked {
			time.Sleep(5 * time.Millisecond) // let a reader notice the update and reload
		}
		close(stop)
		for g := 0; g < 3; g++ {
			<-done
		}
		if hooked {
			verifhook.Set(nil)
		}
		id := int(idc.Load())
		c.Eval(1)
		c.Count("obligations", 3)
		c.Count("racing_updates", int64(nupd))
		rec := reader.ReadStatusRecent(dagFile, 1)
		if len(rec) != 1 || writeID(rec[0].Status) != id {
			got := -1
			if len(rec) == 1 {
				got = writeID(rec[0].Status)
			}
			c.Violate(idx, "stale-after-quiescence|recent", fmt.Sprintf("after readers and a burst of %d updates have stopped, ReadStatusRecent on the long-lived store returns write w%d, the last update was w%d", nupd, got, id), desc)
		}
		if st, err := reader.ReadStatusToday(dagFile); err != nil || writeID(st) != id {
			c.Violate(idx, "stale-after-quiescence|today", fmt.Sprintf("after readers and updates have stopped, ReadStatusToday on the long-lived store returns write w%d (err=%v), the last update was w%d", writeID(st), err, id), desc)
		}
		if sf, err := reader.FindByRequestID(dagFile, req); err != nil || writeID(sf.Status) != id {
			c.Violate(idx, "stale-after-quiescence|find", fmt.Sprintf("after readers and updates have stopped, FindByRequestID does not return the last update w%d (err=%v)", id, err), desc)
		}
		c.Sig("quiesce", idx, size, nupd)
		if idx%37 == 0 {
			c.Sample(desc)
		}
		os.RemoveAll(root)
		c.End(idx)
	}
}

func init() {
	core.RaceGate["C06"] = []string{"jsondb.(*writer).open", "jsondb.(*writer).write", "jsondb.(*writer).close"}
	core.Register(&core.Prop{ID: "C06", Level: "exploration", Body: c06Body, CrashKey: crashKeyGeneric, MinDistinct: 30,
		Passes: func(tier string) []core.Pass {
			return []core.Pass{
				{Name: "main", Mode: "controlled", Shards: 16, Timeout: 60 * time.Minute},
				{Name: "race", Mode: "race", Race: true, Shards: 16, Timeout: 60 * time.Minute},
				{Name: "quiesce", Mode: "quiesce", Shards: 8, Timeout: 60 * time.Minute},
				{Name: "quiesce-race", Mode: "quiesce", Race: true, Shards: 8, Timeout: 60 * time.Minute},
				{Name: "linear", Mode: "linear", Shards: 12, Timeout: 60 * time.Minute},
				{Name: "forced", Mode: "forced", Shards: 12, Timeout: 60 * time.Minute},
			}
		},
		Rule: "Random operation sequences (30 (60) ops) against the real jsondb over 2-5 DAG files drawn from a hostile name pool (spaces, dots, shared prefixes a/ab/a-b, the compaction suffix x_c, a timestamp-like name, non-ASCII, same base name in two directories; in 35% of the sequences glob metacharacters * ? [ ] \\). Ops: record a run (Open / 1-4 Write / Close with compaction, each by its own store instance like a real agent process; start times from a pool that puts runs in the same millisecond, same second, same minute, a minute apart, and on both sides of today's midnight; payloads 0 B - 70 KB non-ASCII), Update through the long-lived server instance (file cache in play), Rename to a fresh name, RemoveOld(1/3/7/30 days; file mtimes set with Chtimes to 0/2/5/10/40 days + 6 h), RemoveAll. After EVERY operation, for EVERY DAG: FindByRequestID of every model run (each write carries a unique id, so the answer names the write it came from) and of every removed/foreign id, ReadStatusRecent(n) for n in {1,2,len,len+3} against 'n most recently started, newest first' (identical milliseconds are an unordered tie), ReadStatusToday under both latestStatusToday settings; a fresh instance re-asks at the end. RemoveOld is judged one-sidedly (younger runs must survive). Non-trivial = every sequence (>= 30 ops, each followed by the full query set). Distinct = distinct operation sequences. Quiescence passes (plain and under the race detector): 60 (1500) rounds in which three reader goroutines query a long-lived caching store while another instance makes a burst of 2-4 manual updates of a 2 kB - 1.2 MB status; nothing is judged while they race, but after everybody has stopped all three queries must return the last update. Forced pass: 48 (960) rounds of one decided interleaving - a server-side query (recent history n=5 / n=1, latest status with either latestStatusToday setting; instance fresh or with a warm cache; 0/1/3 older finished runs; 1-3 writes; every second dozen of rounds with the process in a time zone (UTC-12 or UTC+14, chosen by the hour) whose calendar date differs from the UTC date at that moment) lists the directory while the run is still <run>.dat, the run then ends (compaction to <run>_c.dat), and only then the query reads what it listed; the query is held between listing and reads by two named pipes named like newer status files (no hook): the run, recorded before the query began, must be returned first with its last acknowledged write, older runs after it.",
		Assumptions: []string{"request ids have distinct 8-character prefixes (file names keep 8 characters; real ids are UUIDs)",
			"runs with zero writes are not generated (C07 owns that window)", "answers given while readers race a writer are not judged; what is returned after they have stopped is"}})
}
