package props

import (
	"fmt"
	"os"
	"path/filepath"
	"sync"
	"time"

	"github.com/ErdemOzgen/blackdagger/verifh/apih"
	"github.com/ErdemOzgen/blackdagger/verifh/core"
	"github.com/ErdemOzgen/blackdagger/verifh/vexec"
)

// Successor pass: a run of a DAG ends and the next run of the same DAG begins while a goroutine
// of the ended run - its status socket server, on its way out - has not done its clean-up yet.
// Both runs use the same socket address.  Nothing the leaving goroutine does may touch what now
// belongs to the successor: the successor is the running run, the API must see it as running
// (no second start, no edit of the recorded run) and a stop must reach it.
//
// Seen by chance first (thorough tier and quick seed 3, on a loaded machine: the goroutine of
// the previous run removed the socket path a second time, after the next run had bound it);
// here the order is decided: the hook sock.serve.exiting parks the predecessor's goroutine
// until the successor answers on its socket.
func c20Successor(c *core.Ctx) {
	rounds := c.Pick(32, 480)
	for idx := 0; idx < rounds; idx++ {
		if !c.Mine(idx) {
			continue
		}
		r := c.Rand("succ", idx)
		prevKind := []string{"finished", "failed"}[idx%2]
		nextKind := []string{"running", "running-in-exit-handler", "running-in-failure-handler"}[(idx/2)%3]
		lateMs := []int{0, 5, 60}[(idx/6)%3]
		desc := map[string]any{"round": idx, "previous_run": prevKind, "next_run_held_in": nextKind, "previous_run_s_server_goroutine_released_ms_after_the_next_run_answers": lateMs}
		c.Begin(idx, desc)
		func() {
			root, err := os.MkdirTemp(c.Scratch, "c20n-")
			if err != nil {
				c.Inconclusive("mkdtemp")
				return
			}
			defer os.RemoveAll(root)
			self, _ := os.Executable()
			wrapper := filepath.Join(root, "recorder.sh")
			_ = os.WriteFile(wrapper, []byte("#!/bin/sh\nexec "+self+" c20rec \"$@\"\n"), 0755)
			recLog := filepath.Join(root, "spawns.log")
			os.Setenv("VERIF_C20_LOG", recLog)
			empty := filepath.Join(root, "cwd")
			_ = os.MkdirAll(empty, 0755)
			_ = os.Chdir(empty)
			env, err := apih.New(root, wrapper, apih.Auth{}, false)
			if err != nil {
				c.Inconclusive("apih: " + err.Error())
				return
			}
			e := &c20Env{c: c, idx: idx, r: r, env: env, rec: recLog, seen: map[string]bool{}}
			d := &c20Dag{ID: fmt.Sprintf("c20n%dd0", idx), Steps: []string{"s1", "s2", "s3"}[:1+r.Intn(3)]}
			e.dags = append(e.dags, d)

			// the predecessor's server goroutine parks at its exit until released
			var mu sync.Mutex
			armed := true
			arrived := make(chan struct{})
			release := make(chan struct{})
			passed := make(chan struct{})
			vexec.SetGlobalHook(func(name string, arg any) {
				if name != "sock.serve.exiting" {
					return
				}
				mu.Lock()
				mine := armed
				armed = false
				mu.Unlock()
				if !mine {
					return
				}
				close(arrived)
				select {
				case <-release:
				case <-time.After(90 * time.Second):
				}
				// the goroutine goes on into its clean-up when this returns
				go func() { time.Sleep(30 * time.Millisecond); close(passed) }()
			})
			defer vexec.SetGlobalHook(nil)
			released := false
			defer func() {
				if !released {
					close(release)
				}
			}()

			if !e.makeRun(d, prevKind) {
				return
			}
			select {
			case <-arrived:
			case <-time.After(20 * time.Second):
				c.Inconclusive("c20 successor: the server goroutine of the ended run never reached its exit")
				return
			}
			if !e.makeRun(d, nextKind) {
				return
			}
			defer func() {
				if d.Running {
					_ = e.env.Client.Stop(mustDAG(e, d))
					e.endHeld(d, 30*time.Second)
				}
			}()
			time.Sleep(time.Duration(lateMs) * time.Millisecond)
			released = true
			close(release)
			select {
			case <-passed:
			case <-time.After(10 * time.Second):
			}
			c.Eval(1)
			c.Count("successor_rounds", 1)
			c.Sig("succ", prevKind, nextKind, lateMs)
			sp0 := len(e.spawns())
			prev := d.Runs[len(d.Runs)-1]

			// the successor is the running run: a start is refused and starts nothing
			c.Count("obligations", 2)
			code := e.postLive(d.ID, map[string]string{"action": "start"}, func(c int) bool { return c < 400 })
			e.ops = append(e.ops, fmt.Sprintf("start %s[running, successor of a %s run] -> %d", d.ID, prevKind, code))
			if e.abandon {
				return
			}
			if code < 400 {
				e.violate("successor-start-accepted", fmt.Sprintf("the next run of the DAG is running, the previous run's server goroutine has just left: a start was accepted (HTTP %d); %s", code, e.probe(d)))
				return
			}
			time.Sleep(40 * time.Millisecond)
			if got := e.spawns()[sp0:]; len(got) > 0 {
				e.violate("successor-start-spawned", fmt.Sprintf("a refused start spawned %v", got))
				return
			}
			// an edit of the previous (recorded) run is refused while the successor runs
			c.Count("obligations", 1)
			before := e.dump()
			code = e.postLive(d.ID, map[string]string{"action": "mark-failed", "requestId": prev.Req, "step": d.Steps[0]}, func(c int) bool { return c < 400 })
			e.ops = append(e.ops, fmt.Sprintf("mark-failed %s[running] req=%s -> %d", d.ID, prev.Req, code))
			if e.abandon {
				return
			}
			if code < 400 {
				e.violate("successor-mark-accepted", fmt.Sprintf("an edit of the recorded run was accepted while the next run is running (HTTP %d); %s", code, e.probe(d)))
				return
			}
			if diff := apih.Diff(before, e.dump()); len(diff) > 0 {
				e.violate("successor-mark-changed", fmt.Sprintf("a refused edit changed the stores: %v", diff))
				return
			}
			// a stop reaches it
			c.Count("obligations", 1)
			code = e.postLive(d.ID, map[string]string{"action": "stop"}, func(c int) bool { return c != 200 })
			e.ops = append(e.ops, fmt.Sprintf("stop %s[running] -> %d", d.ID, code))
			if code == 200 {
				e.abandon = false
			}
			if e.abandon {
				return
			}
			if code != 200 {
				e.violate("successor-stop-refused", fmt.Sprintf("stop of the running successor was refused (HTTP %d); %s", code, e.probe(d)))
				return
			}
			if !e.endHeld(d, 30*time.Second) {
				e.violate("successor-stop-not-delivered", "stop of the running successor was accepted but the run never received it (still running after 30 s)")
				return
			}
			c.Count("successor_stops_delivered", 1)
			c.Sample(desc)
		}()
		c.End(idx)
	}
}
