package props

// C05, real-process pass — the real `blackdagger start` with real child
// processes as steps (process groups, shell wrappers, a grandchild holding the
// stdout pipe, signal handlers), stopped by SIGTERM to the agent, by the real
// `blackdagger stop`, or by the DAG's timeoutSec.  Oracle: marker files written
// by the children, liveness of their pids, exit of the start process within a
// bound that is >= 10x what the configuration allows, recorded status.

import (
	"fmt"
	"os"
	"os/exec"
	"os/signal"
	"path/filepath"
	"strconv"
	"strings"
	"syscall"
	"time"

	"github.com/ErdemOzgen/blackdagger/internal/persistence/jsondb"
	"github.com/ErdemOzgen/blackdagger/verifh/core"
	"github.com/ErdemOzgen/blackdagger/verifh/pgrp"
)

// c05proc <marker> <name> <mode>: modes exit-on-term | ignore-term | exit-on-int | quick
func c05Proc(args []string) int {
	if len(args) < 3 {
		return 9
	}
	line := func(kind string) {
		f, err := os.OpenFile(args[0], os.O_APPEND|os.O_CREATE|os.O_WRONLY, 0644)
		if err == nil {
			fmt.Fprintf(f, "%s %s %d %d\n", kind, args[1], os.Getpid(), time.Now().UnixNano())
			f.Close()
		}
	}
	ch := make(chan os.Signal, 8)
	switch args[2] {
	case "ignore-term":
		signal.Ignore(syscall.SIGTERM, syscall.SIGINT, syscall.SIGHUP)
	default:
		signal.Notify(ch, syscall.SIGTERM, syscall.SIGINT, syscall.SIGHUP, syscall.SIGUSR1)
	}
	line("BEGIN")
	if args[2] == "quick" {
		time.Sleep(150 * time.Millisecond)
		line("END")
		return 0
	}
	deadline := time.After(120 * time.Second)
	for {
		select {
		case s := <-ch:
			line("GOT-" + strings.ToUpper(s.String()[:3]) + "-" + fmt.Sprint(int(s.(syscall.Signal))))
			line("END")
			return 0
		case <-deadline:
			line("SELF-END")
			return 0
		}
	}
}

func init() { core.Sub["c05proc"] = c05Proc }

type c05RealCase struct {
	Step string `json:"step"` // behaviour of the running step
	Stop string `json:"stop"` // sigterm | cli-stop | timeout
	// DelayMs: how long after the step was seen running the stop is sent
	DelayMs int `json:"stopDelayMs"`
}

type procEv struct {
	Kind string
	Name string
	Pid  int
	T    int64
}

func readProcMarker(file string) []procEv {
	b, _ := os.ReadFile(file)
	var out []procEv
	for _, l := range strings.Split(strings.TrimSpace(string(b)), "\n") {
		f := strings.Fields(l)
		if len(f) == 4 {
			pid, _ := strconv.Atoi(f[2])
			t, _ := strconv.ParseInt(f[3], 10, 64)
			out = append(out, procEv{f[0], f[1], pid, t})
		}
	}
	return out
}

func pidAlive(pid int) bool {
	b, err := os.ReadFile(fmt.Sprintf("/proc/%d/stat", pid))
	if err != nil {
		return false
	}
	// state is the field after the parenthesised command name
	s := string(b)
	if i := strings.LastIndex(s, ")"); i > 0 && i+2 < len(s) {
		return s[i+2] != 'Z' && s[i+2] != 'X'
	}
	return true
}

// pidOfRun: the process that owns the number now is alive AND was started inside the trial's
// run (every process of a run inherits HOME=<the trial's own directory> from `blackdagger start`).
// The number alone does not identify a process: pid_max is 32768 here, and when something on the
// machine goes through ids quickly (the C16 storm pass) a step's number can name a stranger a few
// seconds after the step has gone.
func pidOfRun(pid int, root string) bool {
	if !pidAlive(pid) {
		return false
	}
	b, err := os.ReadFile(fmt.Sprintf("/proc/%d/environ", pid))
	if err != nil {
		return false
	}
	for _, kv := range strings.Split(string(b), "\x00") {
		if kv == "HOME="+root {
			return true
		}
	}
	return false
}

func c05RealBody(c *core.Ctx) {
	self, _ := os.Executable()
	steps := []string{"sleep", "sh-wrapper", "exit-on-term", "ignore-term", "pipe-holder", "signal-on-stop", "two-running+pending", "repeating"}
	stops := []string{"sigterm", "cli-stop", "timeout"}
	idx := 0
	delays := []int{150}
	if !c.Quick() {
		delays = []int{150, 0, 20, 700}
	}
	for _, dl := range delays {
		for _, st := range steps {
			for _, sp := range stops {
				if sp == "timeout" && dl != 150 {
					continue // the timeout comes by itself
				}
				if !c.Mine(idx) {
					idx++
					continue
				}
				cs := c05RealCase{st, sp, dl}
				c.Begin(idx, cs)
				c05RealTrial(c, idx, self, cs)
				c.End(idx)
				idx++
			}
		}
	}
}

func c05RealTrial(c *core.Ctx, idx int, self string, cs c05RealCase) {
	h, err := newBDHome(c, "c05r-")
	if err != nil {
		c.Inconclusive(err.Error())
		return
	}
	defer os.RemoveAll(h.root)
	marker := filepath.Join(h.root, "marker.txt")
	proc := func(name, mode string) string { return fmt.Sprintf("%s c05proc %s %s %s", self, marker, name, mode) }
	var b strings.Builder
	b.WriteString("maxCleanUpTimeSec: 1\n")
	if cs.Stop == "timeout" {
		b.WriteString("timeoutSec: 2\n")
	}
	fmt.Fprintf(&b, "handlerOn:\n  exit:\n    command: %s\n  cancel:\n    command: %s\n", yq(proc("onexit", "quick")), yq(proc("oncancel", "quick")))
	b.WriteString("steps:\n")
	step := func(name, cmd string, extra ...string) {
		fmt.Fprintf(&b, "  - name: %s\n    command: %s\n", name, yq(cmd))
		for _, e := range extra {
			b.WriteString("    " + e + "\n")
		}
	}
	// first a marker step so that the harness knows the run is under way
	step("first", proc("first", "quick"))
	pidfile := filepath.Join(h.root, "grandchild.pid")
	wantSignal := "TER-15"
	repeating := false
	switch cs.Step {
	case "sleep":
		step("main", "sleep 120", "depends: [first]")
	case "sh-wrapper":
		step("main", "sh", "depends: [first]", "script: |\n      echo $$ > "+pidfile+"\n      sleep 120\n      echo after")
	case "exit-on-term":
		step("main", proc("main", "exit-on-term"), "depends: [first]")
	case "ignore-term":
		step("main", proc("main", "ignore-term"), "depends: [first]")
	case "pipe-holder":
		// the shell ends at once, its background child keeps the step's stdout pipe open
		step("main", "sh", "depends: [first]", "script: |\n      sleep 120 &\n      echo $! > "+pidfile+"\n      echo started")
	case "signal-on-stop":
		step("main", proc("main", "exit-on-int"), "depends: [first]", "signalOnStop: SIGINT")
		if cs.Stop == "cli-stop" {
			wantSignal = "INT-2"
		}
	case "two-running+pending":
		step("main", proc("main", "exit-on-term"), "depends: [first]")
		step("other", proc("other", "exit-on-term"), "depends: [first]")
		step("pending", proc("pending", "quick"), "depends: [main, other]")
	case "repeating":
		repeating = true
		step("main", proc("main", "quick"), "depends: [first]", "repeatPolicy:\n      repeat: true\n      intervalSec: 1")
	}
	loc := filepath.Join(h.dags, "stopme.yaml")
	_ = os.WriteFile(loc, []byte(b.String()), 0644)
	desc := map[string]any{"case": cs}
	cmd := exec.Command(h.bin, "start", loc)
	cmd.Env = h.env()
	cmd.Dir = h.root
	cmd.SysProcAttr = &syscall.SysProcAttr{Setpgid: true}
	var out strings.Builder
	cmd.Stdout, cmd.Stderr = &out, &out
	if err := cmd.Start(); err != nil {
		c.Inconclusive("c05 real: cannot start: " + err.Error())
		return
	}
	done := make(chan struct{})
	grp := pgrp.Open(cmd.Process.Pid)
	go func() { _ = cmd.Wait(); close(done) }()
	defer grp.KillClose()
	// wait until the main step runs
	began := func(name string) bool {
		for _, e := range readProcMarker(marker) {
			if e.Kind == "BEGIN" && e.Name == name {
				return true
			}
		}
		return false
	}
	waitFor := func(cond func() bool, limit time.Duration) bool {
		dl := time.Now().Add(limit)
		for time.Now().Before(dl) {
			if cond() {
				return true
			}
			select {
			case <-done:
				return cond()
			default:
			}
			time.Sleep(10 * time.Millisecond)
		}
		return false
	}
	running := func() bool {
		switch cs.Step {
		case "sleep":
			return began("first") && len(readProcMarker(marker)) >= 2 // first BEGIN+END
		case "sh-wrapper", "pipe-holder":
			_, err := os.Stat(pidfile)
			return err == nil
		case "two-running+pending":
			return began("main") && began("other")
		}
		return began("main")
	}
	if !waitFor(running, 30*time.Second) {
		c.Inconclusive(fmt.Sprintf("c05 real %+v: the step never started: %s", cs, clip(out.String(), 300)))
		return
	}
	time.Sleep(time.Duration(cs.DelayMs) * time.Millisecond)
	c.Eval(1)
	tStop := time.Now()
	switch cs.Stop {
	case "sigterm":
		_ = syscall.Kill(cmd.Process.Pid, syscall.SIGTERM)
	case "cli-stop":
		if code, o, _ := h.run(30*time.Second, "stop", loc); code != 0 {
			c.Violate(idx, "real-stop-command-failed|"+cs.Step, "`blackdagger stop` of a running DAG failed: "+clip(o, 300), desc)
			return
		}
	case "timeout":
		// the deadline (2 s after the start) does the stopping
	}
	// maxCleanUpTime 1 s, agent poll 3-5 s, timeout 2 s: 45 s is a >= 10x margin;
	// none of the steps ends by itself before 120 s
	ended := false
	select {
	case <-done:
		ended = true
	case <-time.After(45 * time.Second):
	}
	took := time.Since(tStop)
	evs := readProcMarker(marker)
	var lines []string
	for _, e := range evs {
		lines = append(lines, fmt.Sprintf("%s %s", e.Kind, e.Name))
	}
	desc["events"] = lines
	desc["took_s"] = took.Seconds()
	key := cs.Step + "|" + cs.Stop
	c.Count("obligations", 1)
	if !ended {
		k := "real-hang|" + key
		if cs.Step == "ignore-term" {
			k = "no-sigkill:real|" + cs.Stop // the scripted pass's no-sigkill finding (repaired by 029c9ee), seen with a real process
		}
		c.Violate(idx, k, fmt.Sprintf("45 s after the %s the run has not ended (maxCleanUpTimeSec 1): %v", cs.Stop, lines), desc)
		return
	}
	c.Count("runs_ended", 1)
	c.SetAdd("seconds_to_end", fmt.Sprintf("%s:%d", key, int(took.Seconds())))
	time.Sleep(300 * time.Millisecond)
	// no process of the run is left behind
	c.Count("obligations", 1)
	pids := map[int]string{}
	for _, e := range evs {
		if e.Kind == "BEGIN" {
			pids[e.Pid] = e.Name
		}
	}
	if b, err := os.ReadFile(pidfile); err == nil {
		if p, err := strconv.Atoi(strings.TrimSpace(string(b))); err == nil {
			pids[p] = "shell-or-grandchild"
		}
	}
	for p, n := range pids {
		if pidOfRun(p, h.root) {
			c.Violate(idx, "real-process-left|"+key, fmt.Sprintf("after the run ended the process of step %s (pid %d) is still alive", n, p), desc)
			_ = syscall.Kill(p, syscall.SIGKILL)
		}
	}
	has := func(kind, name string) bool {
		for _, e := range evs {
			if e.Kind == kind && e.Name == name {
				return true
			}
		}
		return false
	}
	// nothing started after the stop
	c.Count("obligations", 1)
	if cs.Step == "two-running+pending" && has("BEGIN", "pending") {
		c.Violate(idx, "real-started-after-stop|"+key, "the pending step was started after the stop", desc)
	}
	// the right signal
	if cs.Stop != "timeout" && !repeating {
		for _, n := range []string{"main", "other"} {
			if (cs.Step == "exit-on-term" || cs.Step == "signal-on-stop" || cs.Step == "two-running+pending") && has("BEGIN", n) {
				c.Count("obligations", 1)
				if !has("GOT-"+wantSignal, n) {
					c.Violate(idx, "real-wrong-signal|"+key, fmt.Sprintf("step %s did not receive %s: %v", n, wantSignal, lines), desc)
				}
			}
		}
	}
	if repeating && cs.Stop != "timeout" {
		// the iteration in flight may finish; no iteration may begin after the stop
		c.Count("obligations", 1)
		for _, e := range evs {
			if e.Kind == "BEGIN" && e.Name == "main" && e.T > tStop.Add(200*time.Millisecond).UnixNano() {
				c.Violate(idx, "real-repeated-after-stop|"+key, "a repeating step began a new iteration after the stop", desc)
			}
			if strings.HasPrefix(e.Kind, "GOT-") && e.Name == "main" {
				c.Violate(idx, "real-repeat-signalled|"+key, "the repeating step's iteration was signalled", desc)
			}
		}
	}
	// recorded outcome and handlers
	rec := jsondb.New(h.data, false).ReadStatusRecent(loc, 1)
	c.Count("obligations", 2)
	if len(rec) != 1 {
		c.Violate(idx, "real-no-status|"+key, "no status was recorded for the stopped run", desc)
		return
	}
	got := rec[0].Status.Status.String()
	c.SetAdd("recorded_outcomes", cs.Stop+":"+got)
	switch {
	case cs.Stop == "timeout" && cs.Step == "pipe-holder":
		// the step's own process had already exited 0 when the deadline passed (only
		// its background child was still holding the pipe): any final label is accepted
	case cs.Stop == "timeout":
		if got == "finished" || got == "running" {
			c.Violate(idx, "real-timeout-label|"+key, "after the timeout the run is recorded as "+got, desc)
		}
	case repeating:
		// a lone repeating step that finishes its iteration: the pinned suite asserts "finished"
	default:
		if got != "canceled" {
			c.Violate(idx, "real-stop-label|"+key, "the stopped run is recorded as "+got+" (expected canceled)", desc)
		} else if !has("END", "oncancel") {
			c.Violate(idx, "real-no-oncancel|"+key, "the stopped run did not execute its cancel handler", desc)
		}
	}
	if !has("END", "onexit") {
		c.Violate(idx, "real-no-onexit|"+key, "the run ended without executing its exit handler", desc)
	}
	c.Sig("real", cs.Step, cs.Stop, cs.DelayMs)
	c.Sample(map[string]any{"case": cs, "took_s": took.Seconds(), "events": lines, "recorded": got})
}
