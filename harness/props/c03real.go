package props

// C03, real pass: retries through the real command executor.  The scripted executor of the
// main passes never goes through the command line splitting, the script file and the process
// start of a real step, which are redone for every attempt.  Definitions are LOADED FROM YAML
// (dag.LoadYAML) so that steps are what the loader makes of them; each step is a child process
// that counts its own executions in a file and fails its first k attempts.

import (
	"context"
	"fmt"
	"os"
	"path/filepath"
	"strconv"
	"strings"
	"time"

	"github.com/ErdemOzgen/blackdagger/internal/dag"
	dagsched "github.com/ErdemOzgen/blackdagger/internal/dag/scheduler"
	"github.com/ErdemOzgen/blackdagger/verifh/core"
)

func c03RealBody(c *core.Ctx) {
	self, _ := os.Executable()
	kinds := []string{"command-string", "command-list", "script", "script+args", "shell-wrapper", "quoted-args", "output-capture", "script+output+stderr-file"}
	idx := 3 << 20
	n := c.Pick(96, 1200)
	for i := 0; i < n; i++ {
		if !c.Mine(idx) {
			idx++
			continue
		}
		r := c.Rand("c03real", idx)
		kind := kinds[i%len(kinds)]
		limit := r.Intn(4)
		k := []int{0, 1, 2, 3, 9}[r.Intn(5)] // fails its first k attempts
		root, err := os.MkdirTemp(c.Scratch, "c03r-")
		if err != nil {
			c.Inconclusive("mkdtemp")
			return
		}
		counter := filepath.Join(root, "main.attempt")
		emit := fmt.Sprintf("%s emit 10 5 0 %d %s", self, k, counter)
		var stepYAML string
		switch kind {
		case "command-string":
			stepYAML = "    command: " + yq(emit) + "\n"
		case "command-list":
			parts := strings.Fields(emit)
			var q []string
			for _, p := range parts {
				q = append(q, yq(p))
			}
			stepYAML = "    command: [" + strings.Join(q, ", ") + "]\n"
		case "script":
			stepYAML = "    command: sh\n    script: |\n      exec " + emit + "\n"
		case "script+args":
			stepYAML = "    command: sh -e\n    script: |\n      exec " + emit + "\n"
		case "shell-wrapper":
			stepYAML = "    command: " + yq("sh -c "+fmt.Sprintf("%q", emit)) + "\n"
		case "output-capture":
			emit = fmt.Sprintf("%s emit %d 5 0 %d %s", self, []int{10, 5000, 70000}[r.Intn(3)], k, counter)
			stepYAML = "    command: " + yq(emit) + "\n    output: VERIF_C03R_OUT\n"
		case "script+output+stderr-file":
			emit = fmt.Sprintf("%s emit %d 300 0 %d %s", self, []int{10, 5000, 70000}[r.Intn(3)], k, counter)
			stepYAML = "    command: sh\n    script: |\n      exec " + emit + "\n    output: VERIF_C03R_OUT\n    stderr: " + yq(filepath.Join(root, "main.stderr")) + "\n"
		default:
			stepYAML = "    command: " + yq(emit+" \"extra arg\" `echo sub`") + "\n"
		}
		text := "steps:\n  - name: main\n    dir: " + yq(root) + "\n" + stepYAML
		if limit > 0 {
			text += fmt.Sprintf("    retryPolicy:\n      limit: %d\n      intervalSec: 0\n", limit)
		}
		text += "  - name: after\n    command: \"true\"\n    depends: [main]\n"
		desc := map[string]any{"kind": kind, "fails_first": k, "retry_limit": limit, "definition": text}
		c.Begin(idx, desc)
		func() {
			defer os.RemoveAll(root)
			d, err := dag.LoadYAML([]byte(text))
			if err != nil {
				c.Inconclusive("c03 real: definition refused: " + err.Error())
				return
			}
			g, err := dagsched.NewExecutionGraph(c13Logger, d.Steps...)
			if err != nil {
				c.Inconclusive("c03 real: graph: " + err.Error())
				return
			}
			logDir := filepath.Join(root, "logs")
			_ = os.MkdirAll(logDir, 0755)
			sc := dagsched.New(&dagsched.Config{LogDir: logDir, Logger: c13Logger, ReqID: fmt.Sprintf("c03r-%d", i)})
			sc.VerifSetPause(time.Millisecond)
			d.Location = filepath.Join(root, "c03.yaml")
			ctx := dag.NewContext(context.Background(), d, nil, "c03r", filepath.Join(root, "sched.log"))
			done := make(chan error, 1)
			go func() { done <- sc.Schedule(ctx, g, nil) }()
			select {
			case <-done:
			case <-time.After(120 * time.Second):
				c.Inconclusive("c03 real: the run did not finish within 120 s")
				return
			}
			c.Eval(1)
			os.Unsetenv("VERIF_C03R_OUT")
			attempts := 0
			if b, err := os.ReadFile(counter); err == nil {
				attempts, _ = strconv.Atoi(strings.TrimSpace(string(b)))
			}
			wantN, wantSt := limit+1, "failed"
			if k <= limit {
				wantN, wantSt = k+1, "finished"
			}
			var st dagsched.NodeState
			var afterSt string
			for _, nd := range g.Nodes() {
				if nd.Data().Step.Name == "main" {
					st = nd.State()
				} else {
					afterSt = nd.State().Status.String()
				}
			}
			desc["executions"], desc["state"], desc["retry_count"] = attempts, st.Status.String(), st.RetryCount
			c.Count("obligations", 4)
			c.Count("real_attempts", int64(attempts))
			where := kind
			if attempts != wantN {
				c.Violate(idx, "real-exec-count|"+where, fmt.Sprintf("%s step failing its first %d attempts with retry limit %d: its command was executed %d time(s), expected %d", kind, k, limit, attempts, wantN), desc)
			}
			if st.Status.String() != wantSt {
				c.Violate(idx, "real-outcome|"+where, fmt.Sprintf("%s step failing its first %d attempts with retry limit %d ended %q, expected %q (error: %v)", kind, k, limit, st.Status, wantSt, st.Error), desc)
			}
			if st.RetryCount != wantN-1 {
				c.Violate(idx, "real-retry-count|"+where, fmt.Sprintf("%s step: recorded retry count %d, executions expected %d", kind, st.RetryCount, wantN), desc)
			}
			if wantAfter := map[string]string{"finished": "finished", "failed": "canceled"}[wantSt]; afterSt != wantAfter {
				c.Violate(idx, "real-dependent|"+where, fmt.Sprintf("the dependent of a step that ended %s is %q, expected %q", wantSt, afterSt, wantAfter), desc)
			}
			c.Sig("c03real", kind, k, limit)
			if i%13 == 0 {
				c.Sample(desc)
			}
		}()
		c.End(idx)
		idx++
	}
}
