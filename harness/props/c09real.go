package props

// C09, real-client pass — the cron daemon with the REAL client, history store
// (latestStatusToday as in the default configuration) and status socket: the
// run states are made by the real `blackdagger start` binary with a child
// process as its step; the executable the daemon spawns is a recorder.

import (
	"fmt"
	"os"
	"os/exec"
	"path/filepath"
	"strings"
	"syscall"
	"time"

	"github.com/ErdemOzgen/blackdagger/internal/client"
	"github.com/ErdemOzgen/blackdagger/internal/config"
	dsclient "github.com/ErdemOzgen/blackdagger/internal/persistence/client"
	"github.com/ErdemOzgen/blackdagger/internal/scheduler"
	"github.com/ErdemOzgen/blackdagger/verifh/core"
	"github.com/ErdemOzgen/blackdagger/verifh/pgrp"
)

func c09RealBody(c *core.Ctx) {
	self, _ := os.Executable()
	states := []string{"never-run", "running", "running-since-yesterday", "finished-this-minute", "killed"}
	idx := 0
	for rep := 0; rep < c.Pick(2, 12); rep++ {
		for _, st := range states {
			for _, withStop := range []bool{false, true} {
				if !c.Mine(idx) {
					idx++
					continue
				}
				desc := map[string]any{"state": st, "stop_schedule": withStop, "repetition": rep}
				c.Begin(idx, desc)
				c09RealTrial(c, idx, self, st, withStop, desc)
				c.End(idx)
				idx++
			}
		}
	}
}

func c09RealTrial(c *core.Ctx, idx int, self, state string, withStop bool, desc map[string]any) {
	h, err := newBDHome(c, "c09r-")
	if err != nil {
		c.Inconclusive(err.Error())
		return
	}
	defer os.RemoveAll(h.root)
	marker := filepath.Join(h.root, "marker.txt")
	loc := filepath.Join(h.dags, "cron.yaml")
	mode := "exit-on-term"
	if state == "finished-this-minute" {
		mode = "quick"
	}
	sched := "schedule: \"* * * * *\"\n"
	if withStop {
		sched = "schedule:\n  start: \"* * * * *\"\n  stop: \"* * * * *\"\n"
	}
	_ = os.WriteFile(loc, []byte(sched+"maxCleanUpTimeSec: 1\nsteps:\n  - name: main\n    command: "+yq(fmt.Sprintf("%s c05proc %s main %s", self, marker, mode))+"\n"), 0644)
	wrapper := filepath.Join(h.root, "recorder.sh")
	recLog := filepath.Join(h.root, "spawns.log")
	_ = os.WriteFile(wrapper, []byte("#!/bin/sh\nVERIF_C20_LOG="+recLog+" exec "+self+" c20rec \"$@\"\n"), 0755)
	spawned := func(what string) int {
		b, _ := os.ReadFile(recLog)
		return strings.Count(string(b), `["`+what+`"`)
	}
	var agentCmd *exec.Cmd
	var agentGrp *pgrp.Handle
	agentDone := make(chan struct{})
	launched := time.Now() // the run's recorded start time lies between launched and started
	if state != "never-run" {
		agentCmd = exec.Command(h.bin, "start", loc)
		agentCmd.Env = h.env()
		agentCmd.Dir = h.root
		agentCmd.SysProcAttr = &syscall.SysProcAttr{Setpgid: true}
		if err := agentCmd.Start(); err != nil {
			c.Inconclusive("c09 real: cannot start the run: " + err.Error())
			return
		}
		agentGrp = pgrp.Open(agentCmd.Process.Pid)
		go func() { _ = agentCmd.Wait(); close(agentDone) }()
		defer agentGrp.KillClose()
		ok := false
		for i := 0; i < 1500 && !ok; i++ {
			for _, e := range readProcMarker(marker) {
				if e.Kind == "BEGIN" && e.Name == "main" {
					ok = true
				}
			}
			time.Sleep(10 * time.Millisecond)
		}
		if !ok {
			c.Inconclusive("c09 real: the run's step never began")
			return
		}
		time.Sleep(250 * time.Millisecond) // past the agent's delayed first status write
	}
	started := time.Now()
	switch state {
	case "finished-this-minute":
		select {
		case <-agentDone:
		case <-time.After(30 * time.Second):
			c.Inconclusive("c09 real: the quick run did not end")
			return
		}
	case "killed":
		agentGrp.Kill()
		<-agentDone
	case "running-since-yesterday":
		// the run began before midnight: its history file carries yesterday's date
		files, _ := filepath.Glob(filepath.Join(h.data, "*", "*.dat"))
		today, yday := time.Now().Format("20060102"), time.Now().AddDate(0, 0, -1).Format("20060102")
		for _, f := range files {
			_ = os.Rename(f, filepath.Join(filepath.Dir(f), strings.Replace(filepath.Base(f), "."+today+".", "."+yday+".", 1)))
		}
		if len(files) == 0 {
			c.Inconclusive("c09 real: no history file to back-date")
			return
		}
	}
	stores := dsclient.NewDataStores(h.dags, h.data, filepath.Join(h.home, "suspend"), dsclient.DataStoreOptions{LatestStatusToday: true})
	cli := client.New(stores, wrapper, h.root, c13Logger)
	cfg := &config.Config{DAGs: h.dags, WorkDir: h.root, Executable: wrapper, LogDir: h.logs}
	c.Eval(1)
	g := guard(90*time.Second, func() {
		s := scheduler.New(cfg, c13Logger, cli)
		settle := func(wantStart bool) int {
			dl := time.Now().Add(3 * time.Second)
			if wantStart {
				dl = time.Now().Add(10 * time.Second)
			}
			n0 := spawned("start")
			for time.Now().Before(dl) {
				if n := spawned("start"); n > n0 && wantStart {
					time.Sleep(100 * time.Millisecond)
					return spawned("start") - n0
				}
				time.Sleep(20 * time.Millisecond)
			}
			return spawned("start") - n0
		}
		thisMinute := started.Truncate(time.Minute)
		next := time.Now().Add(time.Minute).Truncate(time.Minute)
		running := state == "running" || state == "running-since-yesterday"
		key := state
		if withStop {
			key += "+stop-schedule"
		}
		c.Count("obligations", 2)
		switch {
		case running:
			s.VerifTick(next)
			if n := settle(false); n != 0 {
				c.Violate(idx, "real-start-while-running|"+key, fmt.Sprintf("the daemon spawned %d start(s) for a DAG whose run is in progress (state %s)", n, state), desc)
			}
			if withStop {
				// the stop schedule acts on the running DAG: its run must end
				select {
				case <-agentDone:
					c.Count("real_stops_delivered", 1)
				case <-time.After(30 * time.Second):
					c.Violate(idx, "real-stop-not-delivered|"+key, "the DAG's stop schedule matched while its run was in progress, yet the run was not stopped", desc)
				}
			} else {
				select {
				case <-agentDone:
					c.Violate(idx, "real-run-disturbed|"+key, "a tick of the daemon ended the run in progress although the DAG has no stop schedule", desc)
				case <-time.After(300 * time.Millisecond):
				}
			}
		case state == "finished-this-minute":
			// "started in this minute" is known only if the whole launch lies in it: `started` is
			// taken once the step was seen running, up to a second after the agent recorded its
			// start time; a run launched at :59.6 has started in the minute before, and the daemon
			// is right to start the DAG for this one (DESIGN 12, C09 thorough)
			if !launched.Truncate(time.Minute).Equal(thisMinute) {
				c.Count("same_minute_trials_launched_across_a_minute_boundary_not_judged", 1)
			} else if time.Now().Truncate(time.Minute).Equal(thisMinute) {
				s.VerifTick(thisMinute)
				if n := settle(false); n != 0 {
					c.Violate(idx, "real-second-start-same-minute|"+key, fmt.Sprintf("the DAG's latest run started in this minute, yet the daemon spawned %d more start(s) for the same minute", n), desc)
				}
			}
			s.VerifTick(next)
			if n := settle(true); n != 1 {
				c.Violate(idx, "real-missed-start|"+key, fmt.Sprintf("the daemon spawned %d start(s) at the next scheduled minute (expected 1)", n), desc)
			}
		default: // never-run, killed
			s.VerifTick(next)
			if n := settle(true); n != 1 {
				c.Violate(idx, "real-missed-start|"+key, fmt.Sprintf("the daemon spawned %d start(s) at a scheduled minute for a DAG in state %s (expected 1)", n, state), desc)
			}
			if withStop && spawned("stop") > 0 {
				c.Violate(idx, "real-stop-not-running|"+key, "a stop was issued for a DAG that is not running", desc)
			}
		}
		c.SetAdd("real_client_states", key)
	})
	if g.hung {
		c.Violate(idx, "daemon-stuck|real", "the daemon's tick did not return within 90 s", desc)
	} else if g.panicked {
		c.Violate(idx, "daemon-crash|real", "the daemon panicked in "+g.fn+": "+clip(g.msg, 200), desc)
	}
	c.Sig("real", state, withStop, idx)
	if idx%5 == 0 {
		c.Sample(desc)
	}
}
