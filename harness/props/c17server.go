package props

// C17, server pass: the real `blackdagger server` process, started on a configuration file in
// which auth was switched on and which has then been damaged the way a crash in the middle of
// a save, an editor accident or a bad disk damages files.  Whatever the server makes of such a
// file, it must not serve the API to requests without credentials: either it refuses to start,
// or the requests get 401.  Intact files are the positive control (401 without / 200 with).

import (
	"fmt"
	"net"
	"net/http"
	"os"
	"os/exec"
	"path/filepath"
	"strings"
	"syscall"
	"time"

	"github.com/ErdemOzgen/blackdagger/verifh/core"
	"github.com/ErdemOzgen/blackdagger/verifh/pgrp"
	"gopkg.in/yaml.v2"
)

func c17ServerBody(c *core.Ctx) {
	bin := os.Getenv("VERIF_BLACKDAGGER")
	if bin == "" {
		c.Inconclusive("VERIF_BLACKDAGGER not set (bin/check builds it)")
		return
	}
	n := c.Pick(40, 400)
	for idx := 0; idx < n; idx++ {
		if !c.Mine(idx) {
			continue
		}
		r := c.Rand("c17srv", idx)
		h, err := newBDHome(c, "c17s-")
		if err != nil {
			c.Inconclusive(err.Error())
			return
		}
		scheme := []string{"basic", "token", "both"}[idx%3]
		text := "# written by the set-up tool\nhost: 127.0.0.1\n"
		if scheme != "token" {
			text += "isBasicAuth: true\nbasicAuthUsername: \"admin\"\nbasicAuthPassword: \"s3cret-" + fmt.Sprint(idx) + "\"\n"
		}
		if scheme != "basic" {
			text += "isAuthToken: true\nauthToken: \"tok-" + fmt.Sprint(idx) + "-0123456789abcdef\"\n"
		}
		text += "latestStatusToday: false\nnavbarTitle: \"verif\"\n"
		damage := []string{"intact", "truncated", "truncated", "garbage-appended", "tab-indented", "truncated", "binary-junk-inside", "unclosed-quote"}[idx%8]
		cfg := filepath.Join(h.home, "config.yaml")
		content := text
		switch damage {
		case "truncated":
			// cut inside the file, as a crash in the middle of writing it does
			cut := 1 + r.Intn(len(text)-1)
			content = text[:cut]
		case "garbage-appended":
			content = text + "}}}: [unbalanced\n\t- x\n"
		case "tab-indented":
			content = strings.Replace(text, "latestStatusToday", "\tlatestStatusToday", 1)
		case "binary-junk-inside":
			p := r.Intn(len(text))
			content = text[:p] + "\x00\xff\xfe{[" + text[p:]
		case "unclosed-quote":
			content = strings.Replace(text, "navbarTitle: \"verif\"", "navbarTitle: \"verif", 1)
		}
		_ = os.WriteFile(cfg, []byte(content), 0644)
		// is what is left still a configuration that says "auth on"?
		var parsed map[string]any
		parseErr := yaml.Unmarshal([]byte(content), &parsed)
		authStillConfigured := parseErr == nil && (parsed["isBasicAuth"] == true || parsed["isAuthToken"] == true)
		authLost := parseErr == nil && !authStillConfigured // a shorter but valid file without the auth keys: auth is simply off there
		desc := map[string]any{"scheme": scheme, "damage": damage, "config": clip(content, 400), "yaml_error": fmt.Sprint(parseErr)}
		c.Begin(idx, desc)
		c.Eval(1)
		c.SetAdd("damage_kinds", damage)
		l, err := net.Listen("tcp", "127.0.0.1:0")
		if err != nil {
			c.Inconclusive("no free port")
			c.End(idx)
			return
		}
		port := l.Addr().(*net.TCPAddr).Port
		l.Close()
		cmd := exec.Command(h.bin, "server", "--host", "127.0.0.1", "--port", fmt.Sprint(port), "--dags", h.dags)
		cmd.Env = h.env()
		cmd.Dir = h.root
		cmd.SysProcAttr = &syscall.SysProcAttr{Setpgid: true}
		var out strings.Builder
		cmd.Stdout, cmd.Stderr = &out, &out
		if err := cmd.Start(); err != nil {
			c.Inconclusive("server start: " + err.Error())
			c.End(idx)
			return
		}
		grp := pgrp.Open(cmd.Process.Pid)
		exited := make(chan struct{})
		go func() { _ = cmd.Wait(); close(exited) }()
		// wait until it listens or has exited
		listening := false
		deadline := time.Now().Add(20 * time.Second)
	wait:
		for time.Now().Before(deadline) {
			select {
			case <-exited:
				break wait
			default:
			}
			if conn, err := net.DialTimeout("tcp", fmt.Sprintf("127.0.0.1:%d", port), 200*time.Millisecond); err == nil {
				conn.Close()
				listening = true
				break
			}
			time.Sleep(20 * time.Millisecond)
		}
		get := func(hdr string) int {
			req, _ := http.NewRequest("GET", fmt.Sprintf("http://127.0.0.1:%d/api/v1/dags", port), nil)
			if hdr != "" {
				req.Header.Set("Authorization", hdr)
			}
			resp, err := (&http.Client{Timeout: 10 * time.Second}).Do(req)
			if err != nil {
				return -1
			}
			resp.Body.Close()
			return resp.StatusCode
		}
		c.Count("obligations", 1)
		switch {
		case !listening:
			c.Count("servers_that_refused_to_start", 1)
			if damage == "intact" {
				c.Inconclusive("c17 server: the server did not start on an intact configuration: " + clip(out.String(), 300))
			}
		case authLost:
			// the file that is left is a valid configuration without the auth keys: not judged
			c.Count("damaged_files_that_are_valid_configurations_without_auth", 1)
		default:
			c.Count("servers_serving", 1)
			code := get("")
			wrong := get("Basic YWRtaW46d3Jvbmc=")
			desc["status_without_credentials"], desc["status_with_wrong_credentials"] = code, wrong
			if code != 401 || wrong != 401 {
				c.Violate(idx, "server-open|"+damage+"|"+scheme, fmt.Sprintf("the server was started on a configuration with %s auth switched on (%s); it serves GET /api/v1/dags to a request without credentials with HTTP %d and to one with wrong credentials with HTTP %d", scheme, damage, code, wrong), desc)
			}
			if damage == "intact" {
				c.Count("obligations", 1)
				var hdr string
				if scheme == "token" {
					hdr = "Bearer tok-" + fmt.Sprint(idx) + "-0123456789abcdef"
				} else {
					hdr = "Basic " + b64("admin:s3cret-"+fmt.Sprint(idx))
				}
				if ok := get(hdr); ok != 200 {
					c.Violate(idx, "server-rejects-valid|"+scheme, fmt.Sprintf("intact configuration, valid credentials: HTTP %d", ok), desc)
				}
				c.Count("positive_controls", 1)
			}
		}
		grp.Kill()
		select {
		case <-exited:
		case <-time.After(10 * time.Second):
		}
		grp.Close()
		c.Sig("srv", idx, scheme, damage, listening, authLost)
		if idx%9 == 0 {
			c.Sample(desc)
		}
		os.RemoveAll(h.root)
		c.End(idx)
	}
}
