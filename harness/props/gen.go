package props

import (
	"fmt"
	"math/rand"
	"os"
	"path/filepath"
	"sort"
	"strings"

	"github.com/ErdemOzgen/blackdagger/verifh/vexec"
)

// GenOpts steer the random DAG generator.
type GenOpts struct {
	MaxN         int
	Retries      bool
	Preconds     bool
	ContinueOn   bool
	Failures     bool
	MaxActive    bool
	Delay        bool
	Handlers     bool
	Outputs      bool // some steps capture their stdout with output:
	SubWorkflow  bool // some steps are marked as sub-workflow calls (scheduler level only)
	TeardownFail bool // some steps' output cannot be flushed at teardown (stdout: /dev/full); the done receiver is slow in some cases
	SharedPrec   bool // some DAGs carry the shared-precondition gadget (same condition text, value changed by the run)
	RetryMsProb  int  // % of retrying steps that get a 5..30 ms interval
}

func stepName(i int) string { return fmt.Sprintf("s%d", i) }

// GenDAG draws an acyclic case: edges only i -> j with i < j (declaration
// order is then shuffled so that index order and dependency order differ).
func GenDAG(r *rand.Rand, id string, o GenOpts) *vexec.CaseSpec {
	n := 1 + r.Intn(o.MaxN)
	density := []int{10, 30, 50, 80}[r.Intn(4)]
	spec := &vexec.CaseSpec{ID: id, Level: "sched"}
	for i := 0; i < n; i++ {
		s := &vexec.StepSpec{Name: stepName(i)}
		for j := 0; j < i; j++ {
			if r.Intn(100) < density {
				s.Depends = append(s.Depends, stepName(j))
			}
		}
		if o.ContinueOn {
			s.ContFail = r.Intn(100) < 35
			s.ContSkip = r.Intn(100) < 35
		}
		if o.Failures {
			switch x := r.Intn(100); {
			case x < 55:
				s.FailFirst = 0
			case x < 75:
				s.FailFirst = 1 + r.Intn(3)
			default:
				s.FailFirst = -1
			}
		}
		if o.Retries && r.Intn(100) < 45 {
			s.RetryLimit = 1 + r.Intn(2)
			if r.Intn(100) < o.RetryMsProb {
				s.RetryMs = 5 + r.Intn(25)
			}
		}
		if o.Preconds && r.Intn(100) < 25 {
			s.HasPrecond = true
			s.PrecondUnmet = r.Intn(2) == 0
			s.PrecondN = 1 + r.Intn(3)
			s.PrecondBadAt = r.Intn(s.PrecondN)
			s.PrecondEmpty = r.Intn(4) == 0
		}
		spec.Steps = append(spec.Steps, s)
	}
	// shuffle declaration order
	r.Shuffle(len(spec.Steps), func(i, j int) { spec.Steps[i], spec.Steps[j] = spec.Steps[j], spec.Steps[i] })
	if o.MaxActive {
		w := width(spec)
		spec.MaxActiveRuns = r.Intn(w + 2) // 0 .. width+1
	}
	if o.Delay && r.Intn(100) < 10 {
		spec.DelayMs = 1
	}
	if o.Handlers {
		spec.Handlers = map[string]*vexec.HandlerSpec{}
		for _, t := range []string{"onSuccess", "onFailure", "onCancel", "onExit"} {
			if r.Intn(100) < 60 {
				spec.Handlers[t] = &vexec.HandlerSpec{Fail: r.Intn(100) < 30}
			}
		}
	}
	spec.DecSeed = r.Int63()
	if o.Outputs {
		// drawn from a derived source so that the other draws stay what they were
		r2 := rand.New(rand.NewSource(spec.DecSeed ^ 0x0117))
		for _, s := range spec.Steps {
			if r2.Intn(100) < 18 {
				s.OutputVar = "VERIF_OUT_" + strings.ToUpper(strings.ReplaceAll(id, "-", "_")) + "_" + strings.ToUpper(s.Name)
				s.OutBytes = 1 + r2.Intn(40)
			}
		}
	}
	if o.SubWorkflow {
		r5 := rand.New(rand.NewSource(spec.DecSeed ^ 0x50b))
		for _, s := range spec.Steps {
			if r5.Intn(100) < 15 {
				s.SubWorkflow = true
			}
		}
	}
	if o.TeardownFail {
		r4 := rand.New(rand.NewSource(spec.DecSeed ^ 0x7e47))
		for _, s := range spec.Steps {
			if r4.Intn(100) < 5 && s.FailFirst == 0 && s.RetryLimit == 0 && !s.Repeat && !s.SetupFail && s.OutputVar == "" && !s.StdoutFile && !s.Never {
				s.TeardownFail = true
				if s.OutBytes == 0 {
					s.OutBytes = 1 + r4.Intn(200)
				}
			}
		}
		if r4.Intn(100) < 35 {
			spec.SlowDoneUs = []int{500, 3000, 20000}[r4.Intn(3)]
		}
	}
	if o.SharedPrec {
		r3 := rand.New(rand.NewSource(spec.DecSeed ^ 0x5a5a))
		if r3.Intn(100) < 12 {
			// gx [$S == 1, S is 0: skipped, continueOn.skipped] -> ga [sets S=1 when it ends] ->
			// gc [$S == 1: met, must run]  and  gd [$S == 0: unmet, must be skipped]:
			// one condition text, evaluated before and after the run itself changed what it reads
			// two flavours: an environment variable, and a command substitution reading a file
			// (the text of the latter is the same before and after the change)
			base := os.Getenv("VERIF_SCRATCH")
			if base == "" {
				base = os.TempDir()
			}
			if r3.Intn(2) == 0 {
				v := "VERIF_SHARED_" + strings.ToUpper(strings.ReplaceAll(id, "-", "_"))
				spec.InitEnv = map[string]string{v: "0"}
				spec.Steps = append(spec.Steps,
					&vexec.StepSpec{Name: "gx", HasPrecond: true, PrecondUnmet: true, PrecondVar: v, PrecondExpect: "1", ContSkip: true},
					&vexec.StepSpec{Name: "ga", Depends: []string{"gx"}, SetEnv: map[string]string{v: "1"}},
					&vexec.StepSpec{Name: "gc", Depends: []string{"ga"}, HasPrecond: true, PrecondVar: v, PrecondExpect: "1"},
					&vexec.StepSpec{Name: "gd", Depends: []string{"ga"}, HasPrecond: true, PrecondUnmet: true, PrecondVar: v, PrecondExpect: "0"})
			} else {
				f := filepath.Join(base, fmt.Sprintf("shared-flag-%s-%d", id, os.Getpid()))
				txt := "`cat " + f + "`"
				spec.InitFiles = map[string]string{f: "0"}
				spec.Steps = append(spec.Steps,
					&vexec.StepSpec{Name: "gx", HasPrecond: true, PrecondUnmet: true, PrecondText: txt, PrecondExpect: "1", ContSkip: true},
					&vexec.StepSpec{Name: "ga", Depends: []string{"gx"}, SetFile: map[string]string{f: "1"}},
					&vexec.StepSpec{Name: "gc", Depends: []string{"ga"}, HasPrecond: true, PrecondText: txt, PrecondExpect: "1"},
					&vexec.StepSpec{Name: "gd", Depends: []string{"ga"}, HasPrecond: true, PrecondUnmet: true, PrecondText: txt, PrecondExpect: "0"})
			}
		}
	}
	return spec
}

// width is the number of steps (upper bound of parallelism).
func width(spec *vexec.CaseSpec) int { return len(spec.Steps) }

// ShapeSig is a signature of the DAG's structure and flags (not of the trace).
func ShapeSig(spec *vexec.CaseSpec) string {
	var parts []string
	for _, s := range spec.Steps {
		d := append([]string(nil), s.Depends...)
		sort.Strings(d)
		parts = append(parts, fmt.Sprintf("%s<%s|%v%v|r%d.%d|p%v%v|f%d|rep%v|it%v|nv%v|sf%v", s.Name, strings.Join(d, ","),
			s.ContFail, s.ContSkip, s.RetryLimit, s.RetryMs, s.HasPrecond, fmt.Sprint(s.PrecondUnmet, s.PrecondN, s.PrecondBadAt), s.FailFirst, s.Repeat, s.IgnoreTerm, s.Never, s.SetupFail))
	}
	sort.Strings(parts)
	var hs []string
	for t, h := range spec.Handlers {
		hs = append(hs, fmt.Sprintf("%s:%v", t, h.Fail))
	}
	sort.Strings(hs)
	st := ""
	if spec.Stop != nil {
		st = fmt.Sprintf("%s@%s#%d", spec.Stop.Kind, spec.Stop.At, spec.Stop.Nth)
	}
	return fmt.Sprintf("%s|k%d|d%d|h%s|to%d|st%s|dry%v|lvl%s", strings.Join(parts, ";"), spec.MaxActiveRuns, spec.DelayMs, strings.Join(hs, ","), spec.TimeoutMs, st, spec.Dry, spec.Level)
}

// TraceSig is the order of executor events (distinct interleavings).
func TraceSig(o *vexec.Outcome) string {
	var b strings.Builder
	for _, e := range o.Events {
		switch e.Kind {
		case "RUN_ENTER", "RUN_EXIT", "KILL":
			k := map[string]string{"RUN_ENTER": "E", "RUN_EXIT": "X", "KILL": "K"}[e.Kind]
			fmt.Fprintf(&b, "%s.%s.%d.%s;", k, e.Step, e.Attempt, e.Info)
		case "HOOK":
			if e.Info == "launch" {
				fmt.Fprintf(&b, "L.%s;", e.Step)
			}
		case "CTL":
			if strings.HasPrefix(e.Info, "stop.") {
				fmt.Fprintf(&b, "%s;", e.Info)
			}
		}
	}
	return b.String()
}

// Enumerate runs every decision path of the case depth-first, up to limit
// paths. It returns the number of paths run and whether the tree was exhausted.
func Enumerate(spec *vexec.CaseSpec, opts *vexec.RunOpts, limit int, fn func(*vexec.CaseSpec, *vexec.Outcome)) (int, bool) {
	prefix := []int{}
	paths := 0
	for {
		cs := *spec
		cs.UseDecisions = true
		cs.Decisions = append([]int(nil), prefix...)
		cs.ID = fmt.Sprintf("%s.p%d", spec.ID, paths)
		out := vexec.Run(&cs, opts)
		cs.Decisions = append([]int(nil), out.Taken...)
		fn(&cs, out)
		paths++
		// next path: increment the last decision that still has room
		i := len(out.Taken) - 1
		for i >= 0 && out.Taken[i]+1 >= out.OptCounts[i] {
			i--
		}
		if i < 0 {
			return paths, true
		}
		if paths >= limit {
			return paths, false
		}
		prefix = append(append([]int(nil), out.Taken[:i]...), out.Taken[i]+1)
	}
}

// AllShapes returns every edge set on n steps with edges i->j, i<j.
func AllShapes(n int) [][][2]int {
	var pairs [][2]int
	for j := 0; j < n; j++ {
		for i := 0; i < j; i++ {
			pairs = append(pairs, [2]int{i, j})
		}
	}
	var out [][][2]int
	for m := 0; m < 1<<len(pairs); m++ {
		var es [][2]int
		for b, p := range pairs {
			if m&(1<<b) != 0 {
				es = append(es, p)
			}
		}
		out = append(out, es)
	}
	return out
}

// ShapeCase builds a case from a shape; flags are filled by the caller.
func ShapeCase(id string, n int, edges [][2]int) *vexec.CaseSpec {
	spec := &vexec.CaseSpec{ID: id, Level: "sched"}
	for i := 0; i < n; i++ {
		spec.Steps = append(spec.Steps, &vexec.StepSpec{Name: stepName(i)})
	}
	for _, e := range edges {
		spec.Steps[e[1]].Depends = append(spec.Steps[e[1]].Depends, stepName(e[0]))
	}
	return spec
}
