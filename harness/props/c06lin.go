package props

// C06, linearizability pass: the web server reads the history while agents write it.  One writer
// goroutine per DAG records runs the way an agent process does (own store instance: Open, Write
// x k, Close with compaction), another one edits finished runs (Update), and reader goroutines on
// a long-lived caching instance (the server) look runs up by request id, ask for the latest
// status and for the recent history.  Every call is recorded at the client boundary with its
// call and return time from one monotonic clock; every written status carries a unique write id,
// so a read names the write it observed.
//
//   - FindByRequestID: per run, the history {write(w), read -> w} must be linearizable against a
//     register (porcupine, partitioned by run).  "Not found" is the value 0 = nothing written yet.
//   - latest / recent: interval rules over the same clock: an answer must name, for each run it
//     lists, a write that was not yet superseded when the read began; a run whose first write had
//     completed before the read began must not be missing from (or, for latest, older than) the
//     answer; the recent list is newest first.

import (
	"fmt"
	"os"
	"path/filepath"
	"sort"
	"strings"
	"sync"
	"sync/atomic"
	"time"

	"github.com/ErdemOzgen/blackdagger/internal/persistence/jsondb"
	"github.com/ErdemOzgen/blackdagger/verifh/core"
	"github.com/anishathalye/porcupine"
)

type linEv struct {
	Run   int  // index of the run
	Write bool // write(w) or read -> w
	W     int
}

var linRegister = porcupine.Model{
	Partition: func(h []porcupine.Operation) [][]porcupine.Operation {
		m := map[int][]porcupine.Operation{}
		var keys []int
		for _, op := range h {
			k := op.Input.(linEv).Run
			if _, ok := m[k]; !ok {
				keys = append(keys, k)
			}
			m[k] = append(m[k], op)
		}
		sort.Ints(keys)
		var out [][]porcupine.Operation
		for _, k := range keys {
			out = append(out, m[k])
		}
		return out
	},
	Init: func() any { return 0 },
	Step: func(st, in, out any) (bool, any) {
		e := in.(linEv)
		if e.Write {
			return true, e.W
		}
		return out.(int) == st.(int), st
	},
	DescribeOperation: func(in, out any) string {
		e := in.(linEv)
		if e.Write {
			return fmt.Sprintf("run%d.write(w%d)", e.Run, e.W)
		}
		return fmt.Sprintf("run%d.find() -> w%d", e.Run, out.(int))
	},
}

// answer anomalies whose cause is not established (see c06Linear's caller notes in DESIGN):
// counted in the evidence, no verdict.
var linUnresolved = map[string]bool{"missing": true, "older-run": true}

type linWrite struct {
	run, w     int
	call, ret  int64
	superseded int64 // return time of the next write of the same run (0 = never)
}

type linRead struct {
	kind      string // latest | recent
	n         int
	call, ret int64
	got       [][2]int // (run, w) in answer order; for latest one entry or none
	errText   string
	diag      string // what a direct look at the directory showed right after an empty answer
}

func c06Linear(c *core.Ctx) {
	rounds := c.Pick(120, 2400)
	for idx := 0; idx < rounds; idx++ {
		if !c.Mine(idx) {
			continue
		}
		r := c.Rand("linear", idx)
		root, err := os.MkdirTemp(c.Scratch, "c06l-")
		if err != nil {
			c.Inconclusive("mkdtemp")
			return
		}
		dagFile := filepath.Join(root, "dags", "lin.yaml")
		data := filepath.Join(root, "data")
		nRuns := 3 + r.Intn(4)
		size := []int{300, 3000, 9000, 40000}[r.Intn(4)]
		desc := map[string]any{"round": idx, "runs": nRuns, "payload": size}
		c.Begin(idx, desc)
		base := time.Now()
		now := func() int64 { return int64(time.Since(base)) }
		start0 := time.Now().UTC().Add(-time.Hour)
		reqOf := func(run int) string { return fmt.Sprintf("%04d%04d-lin", idx%10000, run) }
		startOf := func(run int) time.Time { return start0.Add(time.Duration(run) * 1500 * time.Millisecond) }
		runOfReq := map[string]int{}
		for i := 0; i < nRuns; i++ {
			runOfReq[reqOf(i)] = i
		}
		var mu sync.Mutex
		var ops []porcupine.Operation
		var writes []*linWrite
		var reads []*linRead
		var wid atomic.Int64
		wid.Store(int64(idx) * 1000)
		closed := make([]atomic.Bool, nRuns)
		closeAt := make([]atomic.Int64, nRuns)
		var writerDone atomic.Bool
		var firstAck atomic.Int64 // return time of the very first write of the round
		runAck := make([]atomic.Int64, nRuns)
		var findDiag []string
		addWrite := func(run, w int, call, ret int64, client int) {
			mu.Lock()
			ops = append(ops, porcupine.Operation{ClientId: client, Input: linEv{Run: run, Write: true, W: w}, Call: call, Output: 0, Return: ret})
			writes = append(writes, &linWrite{run: run, w: w, call: call, ret: ret})
			mu.Unlock()
		}
		var wg sync.WaitGroup
		// the agent processes: one run after the other
		wg.Add(1)
		go func() {
			defer wg.Done()
			defer writerDone.Store(true)
			for run := 0; run < nRuns; run++ {
				db := jsondb.New(data, false)
				call := now()
				if err := db.Open(dagFile, startOf(run), reqOf(run)); err != nil {
					c.Inconclusive("c06 linear: open failed: " + err.Error())
					return
				}
				k := 1 + r.Intn(4)
				for j := 0; j < k; j++ {
					w := int(wid.Add(1))
					if j > 0 {
						call = now()
					}
					_ = db.Write(mkStatus(dagFile, reqOf(run), startOf(run), w, size))
					addWrite(run, w, call, now(), 0)
					firstAck.CompareAndSwap(0, now())
					runAck[run].CompareAndSwap(0, now())
					if r.Intn(2) == 0 {
						time.Sleep(time.Duration(r.Intn(400)) * time.Microsecond)
					}
				}
				// Close rewrites the run's last status into the compacted file: the same value, no new write
				_ = db.Close()
				closeAt[run].Store(now())
				closed[run].Store(true)
			}
		}()
		// manual status edits of finished runs (another process: CLI / server action)
		wg.Add(1)
		go func() {
			defer wg.Done()
			upd := jsondb.New(data, false)
			for !writerDone.Load() {
				run := r.Intn(nRuns)
				if !closed[run].Load() {
					time.Sleep(50 * time.Microsecond)
					continue
				}
				w := int(wid.Add(1))
				call := now()
				if err := upd.Update(dagFile, reqOf(run), mkStatus(dagFile, reqOf(run), startOf(run), w, size)); err == nil {
					addWrite(run, w, call, now(), 1)
				} else {
					// an edit that reports failure may or may not have taken effect: keep it open
					mu.Lock()
					ops = append(ops, porcupine.Operation{ClientId: 1, Input: linEv{Run: run, Write: true, W: w}, Call: call, Output: 0, Return: int64(1) << 60})
					mu.Unlock()
					c.Count("updates_that_reported_failure", 1)
				}
				time.Sleep(time.Duration(200+r.Intn(600)) * time.Microsecond)
			}
		}()
		// the server: one long-lived caching instance, several request goroutines
		server := jsondb.New(data, false)
		for g := 0; g < 4; g++ {
			wg.Add(1)
			go func(g int) {
				defer wg.Done()
				client := 10 + g
				extra := 0
				for k := 0; ; k++ {
					if writerDone.Load() {
						// a few more answers after everybody has stopped writing
						if extra++; extra > 2 {
							break
						}
					}
					switch g {
					case 0, 1:
						run := (k + g) % nRuns
						call := now()
						sf, err := server.FindByRequestID(dagFile, reqOf(run))
						ret := now()
						got := 0
						if err == nil && sf != nil {
							got = writeID(sf.Status)
						}
						if got == 0 && runAck[run].Load() != 0 && runAck[run].Load() < call {
							d := fmt.Sprintf("find(run%d) [%d..%d] -> %v; directory right after: %s", run, call, ret, err, linDiag(data))
							mu.Lock()
							findDiag = append(findDiag, d)
							mu.Unlock()
						}
						mu.Lock()
						ops = append(ops, porcupine.Operation{ClientId: client, Input: linEv{Run: run}, Call: call, Output: got, Return: ret})
						mu.Unlock()
					case 2:
						call := now()
						st, err := server.ReadStatusToday(dagFile)
						rd := &linRead{kind: "latest", call: call, ret: now()}
						if err != nil {
							rd.errText = err.Error()
						} else if run, ok := runOfReq[st.RequestID]; ok {
							rd.got = [][2]int{{run, writeID(st)}}
						} else {
							rd.got = [][2]int{{-1, writeID(st)}}
						}
						mu.Lock()
						reads = append(reads, rd)
						mu.Unlock()
					default:
						n := 1 + k%4
						call := now()
						rec := server.ReadStatusRecent(dagFile, n)
						rd := &linRead{kind: "recent", n: n, call: call, ret: now()}
						if len(rec) == 0 && firstAck.Load() != 0 && firstAck.Load() < call {
							rd.diag = linDiag(data)
						}
						for _, sf := range rec {
							run, ok := runOfReq[sf.Status.RequestID]
							if !ok {
								run = -1
							}
							rd.got = append(rd.got, [2]int{run, writeID(sf.Status)})
						}
						mu.Lock()
						reads = append(reads, rd)
						mu.Unlock()
					}
				}
			}(g)
		}
		wg.Wait()
		c.Eval(1)
		// ---- verdicts ----
		res, info := porcupine.CheckOperationsVerbose(linRegister, ops, 60*time.Second)
		c.Count("obligations", 1)
		c.Count("operations_recorded", int64(len(ops)+len(reads)))
		c.Count("lookups_by_request_id", int64(len(ops)-len(writes)))
		switch res {
		case porcupine.Illegal:
			// name the first run whose sub-history is not linearizable, with its operations
			witness := linWitness(ops)
			desc["witness"] = witness
			desc["not_found_although_recorded"] = findDiag
			_ = info
			c.Violate(idx, "not-linearizable|find", "FindByRequestID answers of a run are not linearizable against a register of its recorded statuses: "+clip(fmt.Sprint(witness), 600), desc)
		case porcupine.Unknown:
			c.Inconclusive("c06 linear: porcupine timed out")
		}
		// interval rules for latest / recent
		byRun := map[int][]*linWrite{}
		for _, w := range writes {
			byRun[w.run] = append(byRun[w.run], w)
		}
		firstDone := map[int]int64{}
		for run, ws := range byRun {
			sort.Slice(ws, func(i, j int) bool { return ws[i].call < ws[j].call })
			firstDone[run] = ws[0].ret
			for i := range ws {
				// superseded once ANY later write of the run has completed
				for j := range ws {
					if ws[j].call > ws[i].ret && (ws[i].superseded == 0 || ws[j].ret < ws[i].superseded) {
						ws[i].superseded = ws[j].ret
					}
				}
			}
		}
		findW := func(run, w int) *linWrite {
			for _, x := range byRun[run] {
				if x.w == w {
					return x
				}
			}
			return nil
		}
		seen := map[string]bool{}
		v := func(key, what string, rd *linRead) {
			if linUnresolved[strings.SplitN(key, "|", 2)[0]] {
				// see DESIGN section 12: cause not established yet, counted, not a verdict
				c.Count("unresolved_"+key, 1)
				return
			}
			if !seen[key] {
				seen[key] = true
				var tl []string
				for _, w := range writes {
					tl = append(tl, fmt.Sprintf("run%d.write(w%d) [%d..%d]", w.run, w.w, w.call, w.ret))
				}
				for i := range closeAt {
					if t := closeAt[i].Load(); t != 0 {
						tl = append(tl, fmt.Sprintf("run%d.close returned at %d", i, t))
					}
				}
				d := map[string]any{"round": idx, "runs": nRuns, "payload": size, "writes": tl, "read": fmt.Sprintf("%s(n=%d) call=%d ret=%d -> %v %s", rd.kind, rd.n, rd.call, rd.ret, rd.got, rd.errText), "directory_right_after": rd.diag}
				c.Violate(idx, key, what, d)
			}
		}
		for _, rd := range reads {
			c.Count("obligations", 1)
			c.Count("reads_"+rd.kind, 1)
			// every listed (run, w): a write of that run, begun before the read returned, not superseded before the read began
			for _, g := range rd.got {
				if g[0] < 0 || g[1] < 0 {
					v("foreign-or-torn|"+rd.kind, fmt.Sprintf("%s returned a status that is no recorded write (run %d, write id %d)", rd.kind, g[0], g[1]), rd)
					continue
				}
				w := findW(g[0], g[1])
				switch {
				case w == nil:
					v("unknown-write|"+rd.kind, fmt.Sprintf("%s returned write w%d for run %d, which was never written for it", rd.kind, g[1], g[0]), rd)
				case w.call > rd.ret:
					v("from-the-future|"+rd.kind, fmt.Sprintf("%s returned write w%d of run %d, which began after the read had returned", rd.kind, g[1], g[0]), rd)
				case w.superseded != 0 && w.superseded < rd.call:
					v("stale|"+rd.kind, fmt.Sprintf("%s returned write w%d of run %d although a later status of that run had been recorded completely before the read began", rd.kind, g[1], g[0]), rd)
				}
			}
			// runs that must be visible: first write completed before the read began
			var must []int
			for run, t := range firstDone {
				if t < rd.call {
					must = append(must, run)
				}
			}
			sort.Sort(sort.Reverse(sort.IntSlice(must)))
			switch rd.kind {
			case "latest":
				if len(must) > 0 {
					if len(rd.got) == 0 {
						v("missing|latest", fmt.Sprintf("the latest-status query failed (%s) although run %d had a completely recorded status before the query began", rd.errText, must[0]), rd)
					} else if rd.got[0][0] >= 0 && rd.got[0][0] < must[0] {
						v("older-run|latest", fmt.Sprintf("the latest-status query returned run %d although the later-started run %d had a completely recorded status before the query began", rd.got[0][0], must[0]), rd)
					}
				}
			case "recent":
				for i := 1; i < len(rd.got); i++ {
					if rd.got[i][0] >= rd.got[i-1][0] && rd.got[i][0] >= 0 {
						v("order|recent", fmt.Sprintf("the recent history lists run %d after run %d (newest first expected, each run once)", rd.got[i][0], rd.got[i-1][0]), rd)
					}
				}
				// the n newest of the must-set have to be there unless displaced by newer runs
				listed := map[int]bool{}
				oldest := 1 << 30
				for _, g := range rd.got {
					listed[g[0]] = true
					if g[0] < oldest {
						oldest = g[0]
					}
				}
				for _, run := range must {
					if !listed[run] && (len(rd.got) < rd.n || run > oldest) {
						v("missing|recent", fmt.Sprintf("the recent history (n=%d) does not list run %d, whose first status had been recorded completely before the query began, although it lists %d run(s) and the oldest listed is run %d", rd.n, run, len(rd.got), oldest), rd)
						break
					}
				}
			}
		}
		if ents, err := os.ReadDir("/proc/self/fd"); err == nil {
			c.SetAdd("open_fds_after_round", fmt.Sprint(len(ents)/50*50))
		}
		c.Sig("lin", idx, nRuns, size)
		if idx%41 == 0 {
			c.Sample(map[string]any{"round": idx, "runs": nRuns, "writes": len(writes), "lookups": len(ops) - len(writes), "latest_and_recent_reads": len(reads)})
		}
		os.RemoveAll(root)
		c.End(idx)
	}
}

// linDiag looks at the history directory directly (diagnosis only, no verdict depends on it).
func linDiag(data string) string {
	out := ""
	dirs, _ := filepath.Glob(filepath.Join(data, "*"))
	for _, d := range dirs {
		ents, err := os.ReadDir(d)
		out += fmt.Sprintf("%s: %d entries err=%v;", filepath.Base(d), len(ents), err)
		for _, e := range ents {
			f := filepath.Join(d, e.Name())
			fi, serr := os.Stat(f)
			st, perr := jsondb.ParseFile(f)
			sz := int64(-1)
			if fi != nil {
				sz = fi.Size()
			}
			out += fmt.Sprintf(" %s size=%d stat=%v parse=w%d/%v;", e.Name(), sz, serr, writeID(st), perr)
		}
	}
	return out
}

// linWitness returns the operations of the first run whose sub-history is not linearizable.
func linWitness(ops []porcupine.Operation) []string {
	for _, part := range linRegister.Partition(ops) {
		m := linRegister
		m.Partition = nil
		if porcupine.CheckOperations(m, part) {
			continue
		}
		sort.Slice(part, func(i, j int) bool { return part[i].Call < part[j].Call })
		var out []string
		for _, op := range part {
			out = append(out, fmt.Sprintf("[%d..%d] c%d %s", op.Call/1000, op.Return/1000, op.ClientId, linRegister.DescribeOperation(op.Input, op.Output)))
		}
		if len(out) > 40 {
			out = out[len(out)-40:]
		}
		return out
	}
	return nil
}
