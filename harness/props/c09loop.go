package props

// C09, loop pass: the daemon's own timer loop (Scheduler.Start -> start()), not single ticks.
// The daemon's clock is the fixed-time hook; a recording client moves it forward from inside each
// tick so that every tick ends on or after the next minute boundary (on time, seconds late, one
// or several minutes late) and the real timer never has to wait.  One DAG per minute of the
// window ("NN * * * *") makes each Start name the minute that was ticked.  Oracle: every minute
// of the window is ticked exactly once — a late tick is made up for, never skipped (the jobs of a tick run on goroutines of
// their own, so the order of Start calls across ticks is not part of the statement).

import (
	"context"
	"fmt"
	"os"
	"path/filepath"
	"strings"
	"sync"
	"time"

	"github.com/ErdemOzgen/blackdagger/internal/client"
	"github.com/ErdemOzgen/blackdagger/internal/config"
	"github.com/ErdemOzgen/blackdagger/internal/dag"
	"github.com/ErdemOzgen/blackdagger/internal/persistence/model"
	"github.com/ErdemOzgen/blackdagger/internal/scheduler"
	"github.com/ErdemOzgen/blackdagger/verifh/core"
)

type loopFake struct {
	cronFake  // unused methods (they record "unexpected" calls)
	lmu       sync.Mutex
	started   []string // base names in call order
	onStart   func(base string)
	onRead    func(nthCall int)
	suspCalls int
}

func (f *loopFake) GetLatestStatus(d *dag.DAG) (*model.Status, error) {
	return model.NewStatusDefault(d), nil // never run: the start guard always lets the job through
}

func (f *loopFake) Start(d *dag.DAG, _ client.StartOptions) error {
	base := filepath.Base(d.Location)
	f.lmu.Lock()
	f.started = append(f.started, base)
	cb := f.onStart
	f.lmu.Unlock()
	if cb != nil {
		cb(base)
	}
	return nil
}

// IsSuspended is called by the entry reader synchronously inside every tick, once per DAG:
// the only place where the harness runs on the loop's own goroutine.
func (f *loopFake) IsSuspended(string) bool {
	f.lmu.Lock()
	f.suspCalls++
	cb, n := f.onRead, f.suspCalls
	f.lmu.Unlock()
	if cb != nil {
		cb(n)
	}
	return false
}

func c09LoopBody(c *core.Ctx) {
	n := c.Pick(48, 600)
	lateness := []time.Duration{0, time.Second, 30 * time.Second, 59 * time.Second, 60 * time.Second, 61 * time.Second, 125 * time.Second, 200 * time.Second}
	for idx := 0; idx < n; idx++ {
		if !c.Mine(idx) {
			continue
		}
		r := c.Rand("loop", idx)
		root, err := os.MkdirTemp(c.Scratch, "c09l-")
		if err != nil {
			c.Inconclusive("mkdtemp")
			return
		}
		dir := filepath.Join(root, "dags")
		_ = os.MkdirAll(dir, 0755)
		L := 5 + r.Intn(8)
		t0 := time.Date(2027+r.Intn(5), time.Month(1+r.Intn(12)), 1+r.Intn(28), r.Intn(24), r.Intn(60-L-1), 0, 0, time.UTC)
		startSec := []int{0, 1, 30, 59}[r.Intn(4)]
		var want []string
		for m := 0; m < L; m++ {
			mm := t0.Add(time.Duration(m) * time.Minute)
			name := fmt.Sprintf("m%02d.yaml", mm.Minute())
			_ = os.WriteFile(filepath.Join(dir, name), []byte(fmt.Sprintf("schedule: \"%d * * * *\"\nsteps:\n  - name: s\n    command: \"true\"\n", mm.Minute())), 0644)
			want = append(want, name)
		}
		// how late each tick ends, relative to the next minute boundary
		late := make([]time.Duration, L)
		pattern := r.Intn(4)
		for m := range late {
			switch pattern {
			case 0: // always on time
				late[m] = 0
			case 1: // one slow tick
				if m == L/2 {
					late[m] = lateness[4+r.Intn(4)]
				}
			default:
				late[m] = lateness[r.Intn(len(lateness))]
			}
		}
		desc := map[string]any{"window_start": t0.Format(time.RFC3339), "minutes": L, "daemon_started_at_second": startSec, "lateness_s": fmt.Sprint(late)}
		c.Begin(idx, desc)
		fake := &loopFake{}
		fake.cronFake = *newCronFake()
		clock := t0.Add(time.Duration(startSec) * time.Second)
		scheduler.VerifSetFixedTime(clock)
		cfg := &config.Config{DAGs: dir, WorkDir: dir, Executable: "/bin/false", LogDir: filepath.Join(root, "logs")}
		sch := scheduler.New(cfg, c13Logger, fake)
		doneAll := make(chan struct{})
		var once sync.Once
		var cmu sync.Mutex
		// tick k (the k-th Read of the directory; L IsSuspended calls each) ends `late[k]` after
		// the boundary that follows the k-th minute of the window: the clock is moved while the
		// tick is still in progress, on the loop's goroutine, before the loop re-arms its timer
		fake.onRead = func(nth int) {
			k := (nth - 1) / L
			if (nth-1)%L != 0 || k >= L {
				return
			}
			end := t0.Add(time.Duration(k+1)*time.Minute + late[k])
			cmu.Lock()
			if end.After(clock) {
				clock = end
				scheduler.VerifSetFixedTime(clock)
			}
			cmu.Unlock()
		}
		fake.onStart = func(base string) {
			if base == want[L-1] {
				once.Do(func() { close(doneAll) })
			}
		}
		ctx, cancel := context.WithCancel(context.Background())
		ret := make(chan struct{})
		go func() { _ = sch.Start(ctx); close(ret) }()
		timedOut := false
		select {
		case <-doneAll:
		case <-time.After(20 * time.Second):
			// the last minute was never ticked (or the loop waits for a boundary that the clock,
			// which only moves inside ticks, will not reach): judge what was seen
			timedOut = true
		}
		time.Sleep(20 * time.Millisecond)
		sch.Stop()
		cancel()
		select {
		case <-ret:
		case <-time.After(10 * time.Second):
			c.Inconclusive("c09 loop: Scheduler.Start did not return after Stop")
		}
		scheduler.VerifSetFixedTime(time.Time{})
		fake.lmu.Lock()
		got := append([]string{}, fake.started...)
		fake.lmu.Unlock()
		c.Eval(1)
		c.Count("obligations", int64(L))
		c.Count("minutes_in_windows", int64(L))
		c.Count("ticks_observed", int64(len(got)))
		desc["started"] = got
		seen := map[string]int{}
		for _, g := range got {
			seen[g]++
		}
		for i, w := range want {
			switch {
			case seen[w] == 0:
				c.Violate(idx, "loop-minute-skipped", fmt.Sprintf("minute %s of the window was never ticked by the daemon's timer loop (the tick before it ended %v after the boundary; ticks seen: %v; the loop %s)", strings.TrimSuffix(w, ".yaml"), lateOf(late, i), got, map[bool]string{true: "then stopped making progress for 20 s", false: "went on"}[timedOut]), desc)
			case seen[w] > 1:
				c.Violate(idx, "loop-minute-twice", fmt.Sprintf("minute %s of the window was ticked %d times by the daemon's timer loop", strings.TrimSuffix(w, ".yaml"), seen[w]), desc)
			}
			if seen[w] != 1 {
				break
			}
		}
		c.Sig("loop", idx, L, pattern)
		if idx%17 == 0 {
			c.Sample(desc)
		}
		os.RemoveAll(root)
		c.End(idx)
	}
}

func lateOf(late []time.Duration, i int) time.Duration {
	if i == 0 {
		return 0
	}
	return late[i-1]
}
