package props

import (
	"fmt"
	"strings"

	"github.com/ErdemOzgen/blackdagger/internal/dag/scheduler"
	"github.com/ErdemOzgen/blackdagger/verifh/vexec"
)

// Report is one failed obligation.
type Report struct {
	Prop string
	Key  string
	What string
}

func specByName(spec *vexec.CaseSpec) map[string]*vexec.StepSpec {
	m := map[string]*vexec.StepSpec{}
	for _, s := range spec.Steps {
		m[s.Name] = s
	}
	return m
}

func lets(s *vexec.StepSpec, status string) bool {
	return status == "finished" || (status == "failed" && s.ContFail) || (status == "skipped" && s.ContSkip)
}

func letsNode(s *vexec.StepSpec, st scheduler.NodeStatus) bool {
	return st == scheduler.NodeStatusSuccess || (st == scheduler.NodeStatusError && s.ContFail) ||
		(st == scheduler.NodeStatusSkipped && s.ContSkip)
}

// OnlineMonitors returns the OnRunEnter callback carrying the online parts of
// C01 (dependency gate), C15 (open-run bound) and C03 (attempt bound). It runs
// under the case's log mutex; node state is read only through State().
// obligations counts evaluated (RUN_ENTER, dep) pairs.
func OnlineMonitors(spec *vexec.CaseSpec, obligations *int64) func(c *vexec.Case, step string, attempt int, deps map[string]scheduler.NodeState) {
	by := specByName(spec)
	return func(c *vexec.Case, step string, attempt int, deps map[string]scheduler.NodeState) {
		s := by[step]
		if s == nil {
			return // handler
		}
		// C01: every dependency finished its last attempt in a state that lets us proceed
		for _, d := range s.Depends {
			*obligations++
			if c.IsOpenLocked(d) {
				c.ReportOnline(fmt.Sprintf("C01|dep-open|step %s entered Run() while its dependency %s has an open run", step, d))
				continue
			}
			st, ok := deps[d]
			if !ok {
				continue
			}
			if !letsNode(by[d], st.Status) {
				c.ReportOnline(fmt.Sprintf("C01|dep-state|step %s entered Run() while its dependency %s is %q (continueOn failure=%v skipped=%v)",
					step, d, st.Status.String(), by[d].ContFail, by[d].ContSkip))
			}
		}
		// C15: at most k commands executing (retry sleepers count as executing)
		if k := spec.MaxActiveRuns; k > 0 && spec.Stop == nil && spec.TimeoutMs == 0 {
			open, sleepers := c.OpenCountLocked()
			if open+sleepers > k {
				c.ReportOnline(fmt.Sprintf("C15|over-limit|%d commands executing (+%d waiting out a retry interval) with maxActiveRuns=%d when %s entered Run()",
					open, sleepers, k, step))
			}
		}
		// C03: bounded attempts
		if attempt > s.RetryLimit+1 && !s.Repeat {
			c.ReportOnline(fmt.Sprintf("C03|attempt-bound|step %s entered attempt %d with retry limit %d", step, attempt, s.RetryLimit))
		}
	}
}

// SplitOnline distributes online reports ("Cxx|key|text") to properties.
func SplitOnline(out *vexec.Outcome) []Report {
	var rs []Report
	for _, s := range out.Online {
		p := strings.SplitN(s, "|", 3)
		if len(p) == 3 {
			rs = append(rs, Report{Prop: p[0], Key: p[1], What: p[2]})
		}
	}
	return rs
}

// CheckC01Offline: no dependency runs again after a dependent has started.
func CheckC01Offline(spec *vexec.CaseSpec, out *vexec.Outcome) []Report {
	var rs []Report
	by := specByName(spec)
	firstEnter := map[string]int{}
	lastEnter := map[string]int{}
	lastExit := map[string]int{}
	lastExitInfo := map[string]string{}
	for _, e := range out.Events {
		switch e.Kind {
		case "RUN_ENTER":
			if _, ok := firstEnter[e.Step]; !ok {
				firstEnter[e.Step] = e.Seq
			}
			lastEnter[e.Step] = e.Seq
		case "RUN_EXIT":
			lastExit[e.Step] = e.Seq
			lastExitInfo[e.Step] = e.Info
		}
	}
	for name, s := range by {
		fe, ran := firstEnter[name]
		if !ran {
			continue
		}
		for _, d := range s.Depends {
			if le, ok := lastEnter[d]; ok && le > fe {
				rs = append(rs, Report{"C01", "dep-reran", fmt.Sprintf("dependency %s entered Run() (event %d) after its dependent %s had started (event %d)", d, le, name, fe)})
			}
			// ground truth, independent of what the dependency's node claims: its last
			// execution ended in error and it does not continue on failure
			if lx, ok := lastExit[d]; ok && lx < fe && lastEnter[d] < fe && strings.HasSuffix(lastExitInfo[d], "|err") && by[d] != nil && !by[d].ContFail {
				rs = append(rs, Report{"C01", "dep-failed", fmt.Sprintf("step %s started (event %d) although the last execution of its dependency %s had failed (event %d) and %s does not continue on failure", name, fe, d, lx, d)})
			}
			if lx, ok := lastExit[d]; ok && lx > fe {
				rs = append(rs, Report{"C01", "dep-exit-late", fmt.Sprintf("dependency %s's last Run() returned (event %d) after its dependent %s had started (event %d)", d, lx, name, fe)})
			}
		}
	}
	return rs
}

// expectedExec returns the executions and final state of a runnable step.
func expectedExec(s *vexec.StepSpec) (int, string) {
	if s.TeardownFail {
		// the command succeeds at once, flushing its output fails: one execution, step failed
		return 1, "failed"
	}
	f := s.FailFirst
	L := s.RetryLimit
	if f < 0 || f > L {
		return L + 1, "failed"
	}
	return f + 1, "finished"
}

// CheckFinalStates is the C02 + C03 offline oracle for runs that ended without
// stop or timeout: local consistency of every step's final state with the final
// states of its dependencies.
func CheckFinalStates(spec *vexec.CaseSpec, out *vexec.Outcome) (rs []Report, obligations int) {
	by := specByName(spec)
	ex := out.Executions()
	for name, s := range by {
		if s.Repeat || s.SetupFail {
			continue
		}
		fin, ok := out.Final[name]
		if !ok {
			rs = append(rs, Report{"C02", "missing-node", "no final state for step " + name})
			continue
		}
		obligations++
		if fin.Status == "not started" || fin.Status == "running" {
			rs = append(rs, Report{"C02", "non-terminal", fmt.Sprintf("run ended with step %s left %q", name, fin.Status)})
			continue
		}
		var blockers []string
		blocked := false
		for _, d := range s.Depends {
			if by[d].Repeat || by[d].SetupFail {
				blocked = true // not judged (outside the hypothesis)
				continue
			}
			ds := out.Final[d].Status
			if !lets(by[d], ds) {
				blockers = append(blockers, ds)
			}
		}
		if blocked {
			continue
		}
		if len(blockers) == 0 {
			if s.HasPrecond && s.PrecondUnmet {
				if fin.Status != "skipped" {
					rs = append(rs, Report{"C02", "precond-state", fmt.Sprintf("step %s has an unmet precondition but ended %q", name, fin.Status)})
				}
				if ex[name] != 0 {
					rs = append(rs, Report{"C03", "ran-unrunnable", fmt.Sprintf("step %s has an unmet precondition but was executed %d time(s)", name, ex[name])})
				}
				continue
			}
			wantN, wantSt := expectedExec(s)
			if fin.Status != wantSt {
				rs = append(rs, Report{"C02", "own-outcome", fmt.Sprintf("step %s (failFirst=%d retryLimit=%d) all dependencies let it proceed, ended %q, expected %q", name, s.FailFirst, s.RetryLimit, fin.Status, wantSt)})
			}
			if ex[name] != wantN {
				rs = append(rs, Report{"C03", "exec-count", fmt.Sprintf("step %s (failFirst=%d retryLimit=%d) executed %d time(s), expected %d", name, s.FailFirst, s.RetryLimit, ex[name], wantN)})
			}
			if ex[name] > 0 && fin.RetryCount != ex[name]-1 {
				rs = append(rs, Report{"C03", "retry-count", fmt.Sprintf("step %s executed %d time(s) but its recorded retry count is %d", name, ex[name], fin.RetryCount)})
			}
			continue
		}
		// blocked by at least one dependency
		if ex[name] != 0 {
			rs = append(rs, Report{"C02", "ran-downstream", fmt.Sprintf("step %s was executed %d time(s) although dependencies ended %v without continueOn", name, ex[name], blockers)})
			rs = append(rs, Report{"C03", "ran-unrunnable", fmt.Sprintf("step %s was executed %d time(s) although it is downstream of %v", name, ex[name], blockers)})
		}
		nCancelKind, nSkipKind := 0, 0
		for _, b := range blockers {
			if b == "skipped" {
				nSkipKind++
			} else {
				nCancelKind++
			}
		}
		switch {
		case fin.Status != "canceled" && fin.Status != "skipped":
			rs = append(rs, Report{"C02", "blocked-state", fmt.Sprintf("step %s is downstream of %v but ended %q (expected canceled or skipped)", name, blockers, fin.Status)})
		case nSkipKind == 0 && fin.Status != "canceled":
			rs = append(rs, Report{"C02", "blocked-label", fmt.Sprintf("step %s is downstream of %v only, but ended %q (expected canceled)", name, blockers, fin.Status)})
		case nCancelKind == 0 && fin.Status != "skipped":
			rs = append(rs, Report{"C02", "blocked-label", fmt.Sprintf("step %s is downstream of skipped dependencies only, but ended %q (expected skipped)", name, fin.Status)})
		}
	}
	return rs, obligations
}
