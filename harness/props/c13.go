package props

// C13 — any file content is rejected with an error or yields a runnable DAG.
// Documents from the grammar/mutator of c13gen.go (plus raw bytes and a
// hand-written corpus) go through every loader entry point inside child
// processes; panics are caught per call (and process deaths attributed through
// the BEGIN/END progress log), accepted definitions are checked against the
// statement, a subset is executed through the real agent and read back.

import (
	"context"
	"encoding/json"
	"fmt"
	"math"
	"os"
	"path/filepath"
	"reflect"
	"runtime/debug"
	"strings"
	"time"

	"github.com/ErdemOzgen/blackdagger/internal/agent"
	"github.com/ErdemOzgen/blackdagger/internal/client"
	"github.com/ErdemOzgen/blackdagger/internal/config"
	"github.com/ErdemOzgen/blackdagger/internal/dag"
	dagsched "github.com/ErdemOzgen/blackdagger/internal/dag/scheduler"
	"github.com/ErdemOzgen/blackdagger/internal/logger"
	dsclient "github.com/ErdemOzgen/blackdagger/internal/persistence/client"
	"github.com/ErdemOzgen/blackdagger/internal/persistence/model"
	"github.com/ErdemOzgen/blackdagger/internal/scheduler"
	"github.com/ErdemOzgen/blackdagger/verifh/core"
	"github.com/robfig/cron/v3"
	"golang.org/x/sys/unix"
	"gopkg.in/yaml.v2"
)

var c13Logger = logger.NewLogger(logger.NewLoggerArgs{Quiet: true})

var c13Cron = cron.NewParser(cron.Minute | cron.Hour | cron.Dom | cron.Month | cron.Dow)

type guardResult struct {
	panicked bool
	hung     bool
	fn       string // innermost blackdagger frame of the panic
	msg      string
}

// innermostFrame extracts the innermost non-harness blackdagger function of a stack dump.
func innermostFrame(stack string) string {
	for _, l := range strings.Split(stack, "\n") {
		if strings.HasPrefix(l, "\t") || strings.Contains(l, "/verifh/") {
			continue
		}
		if j := strings.Index(l, "ErdemOzgen/blackdagger/internal/"); j >= 0 {
			fn := l[j+len("ErdemOzgen/blackdagger/internal/"):]
			if k := strings.LastIndex(fn, "("); k > 0 {
				fn = fn[:k]
			}
			return fn
		}
	}
	return "outside-blackdagger"
}

// guard runs f, converting a panic into a result; a call that does not return
// within limit is reported as hung (the goroutine is abandoned).
func guard(limit time.Duration, f func()) guardResult {
	ch := make(chan guardResult, 1)
	go func() {
		var g guardResult
		defer func() {
			if p := recover(); p != nil {
				g.panicked = true
				g.msg = fmt.Sprint(p)
				g.fn = innermostFrame(string(debug.Stack()))
			}
			ch <- g
		}()
		f()
	}()
	select {
	case g := <-ch:
		return g
	case <-time.After(limit):
		return guardResult{hung: true}
	}
}

// ---- oracle on accepted definitions -----------------------------------------------

func stepRunnable(s *dag.Step) bool {
	return strings.TrimSpace(s.Command) != "" || strings.TrimSpace(s.CmdWithArgs) != "" || strings.TrimSpace(s.Script) != "" ||
		s.ExecutorConfig.Type != "" || s.SubWorkflow != nil
}

func jsonFloatProblem(v any) bool {
	switch t := v.(type) {
	case float64:
		return math.IsNaN(t) || math.IsInf(t, 0)
	case map[string]any:
		for _, x := range t {
			if jsonFloatProblem(x) {
				return true
			}
		}
	case map[any]any:
		for _, x := range t {
			if jsonFloatProblem(x) {
				return true
			}
		}
	case []any:
		for _, x := range t {
			if jsonFloatProblem(x) {
				return true
			}
		}
	}
	return false
}

// checkAccepted returns (key, what) pairs for an accepted definition that is
// not what the statement promises. full = steps were built (not metadata only).
func checkAccepted(d *dag.DAG, full bool) (out [][2]string) {
	add := func(k, w string) { out = append(out, [2]string{k, w}) }
	for _, lst := range [][]dag.Schedule{d.Schedule, d.StopSchedule, d.RestartSchedule} {
		for _, s := range lst {
			if s.Parsed == nil {
				add("accepted|schedule-not-parsed", "accepted schedule entry without a parsed expression: "+s.Expression)
			} else if _, err := c13Cron.Parse(s.Expression); err != nil {
				add("accepted|schedule-unparseable", "accepted schedule expression is not a parseable cron expression: "+s.Expression)
			}
		}
	}
	if !full {
		return
	}
	steps := make([]*dag.Step, 0, len(d.Steps)+4)
	for i := range d.Steps {
		steps = append(steps, &d.Steps[i])
	}
	for _, h := range []*dag.Step{d.HandlerOn.Exit, d.HandlerOn.Success, d.HandlerOn.Failure, d.HandlerOn.Cancel} {
		if h != nil {
			steps = append(steps, h)
		}
	}
	for _, s := range steps {
		if s.Name == "" {
			add("accepted|step-without-name", "accepted definition has a step without a name")
		}
		if !stepRunnable(s) {
			add("accepted|step-without-command", fmt.Sprintf("accepted definition has step %q with nothing to execute (command, script, executor, call and run all empty)", s.Name))
		}
		if s.SignalOnStop != "" && unix.SignalNum(s.SignalOnStop) == 0 {
			add("accepted|invalid-signal", "accepted definition has an unknown signalOnStop: "+s.SignalOnStop)
		}
	}
	// the status of an accepted DAG is always serialisable, servable and readable back
	st := model.NewStatus(d, nil, dagsched.StatusNone, 0, nil, nil)
	js, err := st.ToJSON()
	if err != nil {
		cls := "other"
		switch {
		case strings.Contains(err.Error(), "map[interface {}]interface {}"):
			cls = "map-any-any"
		case strings.Contains(err.Error(), "unsupported value"):
			cls = "float"
		}
		add("status-unserialisable|"+cls, "status of an accepted definition cannot be encoded: "+err.Error())
		return
	}
	back, err := model.StatusFromJSON(string(js))
	if err != nil {
		add("status-unreadable", "status of an accepted definition does not read back: "+err.Error())
		return
	}
	js2, err := back.ToJSON()
	if err != nil {
		add("status-unreadable", "re-encoding the status read back fails: "+err.Error())
		return
	}
	var a, b any
	_ = json.Unmarshal(js, &a)
	_ = json.Unmarshal(js2, &b)
	if !reflect.DeepEqual(a, b) {
		add("status-roundtrip", "status of an accepted definition changes when written and read back")
	}
	return
}

// ---- one document through every entry point ------------------------------------------

type c13Doc struct {
	Kind  string   `json:"kind"`
	Muts  []string `json:"mutations,omitempty"`
	Text  string   `json:"text"`
	Eval  bool     `json:"eval"` // strings come from the safe pool: may go through the evaluating loader and the agent
	Seq   int      `json:"seq"`
	bytes []byte
}

func clip(s string, n int) string {
	if len(s) > n {
		return s[:n] + fmt.Sprintf("…(%d bytes)", len(s))
	}
	return s
}

func c13Gen(c *core.Ctx, idx int) *c13Doc {
	r := c.Rand("doc", idx)
	d := &c13Doc{Seq: idx}
	switch k := r.Intn(100); {
	case k < 8:
		d.Kind = "hand-written"
		d.bytes = []byte(handWritten[idx%len(handWritten)])
		d.Eval = true
	case k < 10:
		d.Kind = "raw-bytes"
		n := r.Intn(200)
		d.bytes = make([]byte, n)
		r.Read(d.bytes)
	case k < 11:
		d.Kind = "deep"
		d.bytes = []byte(deepDoc(r.Intn(3), []int{50, 500, 5000, 20000}[r.Intn(4)]))
	case k < 17:
		d.Kind = "executable"
		doc := genExecDoc(r)
		if r.Intn(3) == 0 {
			var desc string
			doc, desc = mutateDoc(r, doc)
			d.Muts = append(d.Muts, desc)
			d.Kind = "executable+mutation"
		}
		b, _ := yaml.Marshal(doc)
		d.bytes = b
		d.Eval = true
	case k < 25:
		d.Kind = "valid"
		b, _ := yaml.Marshal(genDoc(r))
		d.bytes = b
		d.Eval = true
	default:
		doc := genDoc(r)
		n := 1 + r.Intn(3)
		for i := 0; i < n; i++ {
			var desc string
			doc, desc = mutateDoc(r, doc)
			d.Muts = append(d.Muts, desc)
		}
		b, err := yaml.Marshal(doc)
		if err != nil {
			b = []byte("steps: []\n")
			d.Muts = append(d.Muts, "unmarshalable")
		}
		d.Kind = "mutated"
		d.Eval = true
		if r.Intn(4) == 0 {
			b = mutateBytes(r, b)
			d.Kind = "mutated+bytes"
			d.Eval = false
		}
		d.bytes = b
	}
	d.Text = clip(string(d.bytes), 1500)
	return d
}

type c13Env struct {
	c      *core.Ctx
	dir    string // DAGs directory
	stores *c13Stores
}

type c13Stores struct {
	dags, data, suspend string
}

func c13OneDoc(e *c13Env, idx int, d *c13Doc) {
	c := e.c
	seen := map[string]bool{}
	violate := func(key, what string) {
		if seen[key] {
			return
		}
		seen[key] = true
		c.Violate(idx, key, what, d)
	}
	onGuard := func(entry string, g guardResult) bool {
		c.Count("calls", 1)
		if g.hung {
			violate("hang|"+entry, entry+" did not return within 30 s")
			return false
		}
		if g.panicked {
			violate("panic|"+g.fn, fmt.Sprintf("%s panicked in %s: %s", entry, g.fn, clip(g.msg, 200)))
			return false
		}
		return true
	}
	accepted := func(entry string, dg *dag.DAG, err error, full bool) {
		if err != nil || dg == nil {
			c.Count("rejected", 1)
			return
		}
		c.Count("accepted", 1)
		g := guard(30*time.Second, func() {
			for _, kw := range checkAccepted(dg, full) {
				violate(kw[0], entry+": "+kw[1])
			}
		})
		if g.panicked {
			violate("panic|"+g.fn, "building the status of a definition accepted by "+entry+" panicked: "+clip(g.msg, 200))
		}
	}
	const lim = 30 * time.Second
	file := filepath.Join(e.dir, fmt.Sprintf("doc%06d.yaml", idx))
	_ = os.WriteFile(file, d.bytes, 0644)
	defer os.Remove(file)

	var dg *dag.DAG
	var err error
	if onGuard("LoadYAML", guard(lim, func() { dg, err = dag.LoadYAML(d.bytes) })) {
		accepted("LoadYAML", dg, err, true)
		if err == nil {
			c.SetAdd("accepted_kinds", d.Kind)
		}
	}
	if onGuard("LoadMetadata", guard(lim, func() { dg, err = dag.LoadMetadata(file) })) {
		accepted("LoadMetadata", dg, err, false)
	}
	if onGuard("LoadWithoutEval", guard(lim, func() { dg, err = dag.LoadWithoutEval(file) })) {
		accepted("LoadWithoutEval", dg, err, true)
	}
	var loaded *dag.DAG
	if d.Eval {
		if onGuard("Load", guard(lim, func() { dg, err = dag.Load("", file, "") })) {
			accepted("Load", dg, err, true)
			if err == nil {
				loaded = dg
			}
		}
		if idx%5 == 0 {
			// the same text as the base configuration of a trivial DAG
			triv := filepath.Join(e.dir, fmt.Sprintf("triv%06d.yaml", idx))
			_ = os.WriteFile(triv, []byte("steps:\n  - name: t\n    command: \"true\"\n"), 0644)
			if onGuard("Load(base)", guard(lim, func() { dg, err = dag.Load(file, triv, "p1 p2") })) {
				accepted("Load(base)", dg, err, true)
			}
			os.Remove(triv)
		}
	}
	// the store and client entry points the server uses
	if idx%3 == 0 {
		ds := dsclient.NewDataStores(e.stores.dags, e.stores.data, e.stores.suspend, dsclient.DataStoreOptions{})
		name := strings.TrimSuffix(filepath.Base(file), ".yaml")
		st := ds.DAGStore()
		onGuard("DAGStore.GetMetadata", guard(lim, func() { dg, err = st.GetMetadata(name) }))
		if onGuard("DAGStore.GetDetails", guard(lim, func() { dg, err = st.GetDetails(name) })) {
			accepted("DAGStore.GetDetails", dg, err, true)
		}
		onGuard("DAGStore.List", guard(lim, func() { _, _, _ = st.List() }))
		onGuard("DAGStore.Grep", guard(lim, func() { _, _, _ = st.Grep("e") }))
		onGuard("DAGStore.TagList", guard(lim, func() { _, _, _ = st.TagList() }))
		onGuard("DAGStore.UpdateSpec", guard(lim, func() { _ = st.UpdateSpec(name, d.bytes) }))
		cli := client.New(ds, "/bin/false", e.dir, c13Logger)
		onGuard("client.GetStatus", guard(lim, func() {
			s, _ := cli.GetStatus(file)
			if s != nil && s.Status != nil {
				_, _ = s.Status.ToJSON()
			}
		}))
		onGuard("client.GetAllStatus", guard(lim, func() { _, _, _ = cli.GetAllStatus() }))
	}
	// the scheduler daemon reading the directory
	if idx%7 == 0 {
		onGuard("scheduler.New(initDags)", guard(lim, func() {
			cfg := &config.Config{DAGs: e.dir, WorkDir: e.dir, Executable: "/bin/false", LogDir: e.dir}
			s := scheduler.New(cfg, c13Logger, newCronFake())
			s.VerifTick(time.Date(2027, 3, 1, 12, 0, 0, 0, time.UTC))
			// the same document arriving while the directory watcher runs (created, then rewritten)
			done := make(chan any)
			s.VerifStartWatcher(done)
			time.Sleep(5 * time.Millisecond)
			late := filepath.Join(e.dir, fmt.Sprintf("late%06d.yaml", idx))
			_ = os.WriteFile(late, []byte("schedule: \"* * * * *\"\nsteps:\n  - name: a\n    command: \"true\"\n"), 0644)
			time.Sleep(15 * time.Millisecond)
			atomicWrite(late, string(d.bytes))
			time.Sleep(25 * time.Millisecond)
			s.VerifTick(time.Date(2027, 3, 1, 12, 1, 0, 0, time.UTC))
			close(done)
			os.Remove(late)
		}))
	}
	// preconditions of accepted definitions must be evaluable without crashing
	if loaded != nil {
		onGuard("EvalConditions", guard(lim, func() {
			_ = dag.EvalConditions(loaded.Preconditions)
			for _, s := range loaded.Steps {
				_ = dag.EvalConditions(s.Preconditions)
			}
		}))
		c.Count("loaded_with_evaluation", 1)
		if c13Executable(loaded) && (!c.Quick() || idx%2 == 0) {
			c13Execute(e, idx, d, loaded, violate)
		} else if strings.HasPrefix(d.Kind, "executable") {
			c.Count("executable_kind_not_run", 1)
			c.SetAdd("not_run_because", c13WhyNot)
		}
	}
	c.Sig(d.Kind, d.Muts, len(d.bytes), d.Text)
	if idx%997 == 0 {
		c.Sample(d)
	}
}

// c13Executable: only definitions whose steps are harmless and short are run.
var c13WhyNot string

func c13Executable(d *dag.DAG) bool {
	c13WhyNot = ""
	no := func(w string) bool { c13WhyNot = w; return false }
	if len(d.Steps) == 0 || len(d.Steps) > 6 {
		return no("step-count")
	}
	// mail is attempted only where it fails at once (no SMTP host: connection refused on the spot)
	noHost := d.SMTP == nil || d.SMTP.Host == ""
	if d.Delay > time.Second || (d.MailOn != nil && (d.MailOn.Failure || d.MailOn.Success) && !noHost) {
		return no("delay-or-mail")
	}
	ok := func(s *dag.Step) bool {
		if s == nil {
			return true
		}
		if s.ExecutorConfig.Type != "" && s.ExecutorConfig.Type != "command" {
			return no("executor-type")
		}
		if s.SubWorkflow != nil || s.RepeatPolicy.Repeat || (s.MailOnError && !noHost) || len(s.Script) > 200 {
			return no("subworkflow-repeat-mail")
		}
		if s.RetryPolicy != nil && (s.RetryPolicy.Interval > time.Second || s.RetryPolicy.Limit > 3) {
			return no("retry-policy")
		}
		if len(s.Command)+len(s.CmdWithArgs) > 300 {
			return no("long-command")
		}
		if s.Dir != "" && s.Dir != "/tmp" && !strings.HasPrefix(s.Dir, os.Getenv("VERIF_SHARD_SCRATCH")+"/") {
			return no("dir")
		}
		cmd := s.Command
		if cmd == "" {
			cmd = strings.Fields(s.CmdWithArgs + " x")[0]
		}
		switch cmd {
		case "true", "false", "echo", "sh", "verif-no-such-binary":
			return true
		}
		return no("command:" + clip(cmd, 20))
	}
	for i := range d.Steps {
		if !ok(&d.Steps[i]) {
			return false
		}
	}
	return ok(d.HandlerOn.Exit) && ok(d.HandlerOn.Success) && ok(d.HandlerOn.Failure) && ok(d.HandlerOn.Cancel)
}

func c13Execute(e *c13Env, idx int, doc *c13Doc, d *dag.DAG, violate func(key, what string)) {
	c := e.c
	root, err := os.MkdirTemp(c.Scratch, "c13run-")
	if err != nil {
		return
	}
	defer os.RemoveAll(root)
	dataDir, logDir := filepath.Join(root, "data"), filepath.Join(root, "logs")
	_ = os.MkdirAll(logDir, 0755)
	stores := dsclient.NewDataStores(e.dir, dataDir, filepath.Join(root, "suspend"), dsclient.DataStoreOptions{})
	cli := client.New(stores, "/bin/false", root, c13Logger)
	reqID := fmt.Sprintf("c13-%08d", idx)
	logFile := filepath.Join(logDir, "agent.log")
	_ = os.WriteFile(logFile, nil, 0644)
	if d.LogDir != "" && !strings.HasPrefix(d.LogDir, c.Scratch) {
		return
	}
	a := agent.New(reqID, d, c13Logger, logDir, logFile, cli, stores, &agent.Options{})
	ctx, cancel := context.WithTimeout(context.Background(), 20*time.Second)
	defer cancel()
	var runErr error
	g := guard(40*time.Second, func() { runErr = a.Run(ctx) })
	c.Count("executed", 1)
	if g.hung {
		c.Count("executed_timeouts", 1)
		return
	}
	if g.panicked {
		violate("panic|"+g.fn, "running an accepted definition through the agent panicked in "+g.fn+": "+clip(g.msg, 200))
		return
	}
	if runErr != nil {
		// the run was refused before it began (malformed graph, unmet precondition,
		// log directory): nothing serves or records a status for it
		if files, _ := filepath.Glob(filepath.Join(dataDir, "*", "*.dat")); len(files) == 0 {
			c.Count("executed_refused", 1)
			return
		}
	}
	g = guard(10*time.Second, func() {
		if _, err := a.Status().ToJSON(); err != nil {
			violate("served-status-unserialisable", "the status the agent serves for an accepted definition cannot be encoded: "+err.Error())
		}
	})
	if g.panicked {
		violate("panic|"+g.fn, "Agent.Status after the run panicked: "+clip(g.msg, 200))
	}
	// read back what was recorded
	files, _ := filepath.Glob(filepath.Join(dataDir, "*", "*.dat"))
	if len(files) == 0 {
		if runErr == nil {
			violate("executed-not-recorded", "the run of an accepted definition returned without error but nothing was recorded")
		}
		c.Count("executed_refused", 1)
		return
	}
	g = guard(10*time.Second, func() {
		rec := stores.HistoryStore().ReadStatusRecent(d.Location, 1)
		if len(rec) != 1 || rec[0].Status == nil || rec[0].Status.RequestID != reqID {
			violate("executed-not-readable", "a run file exists after executing an accepted definition but the recorded status cannot be read back")
			return
		}
		if rec[0].Status.Status == dagsched.StatusRunning || rec[0].Status.Status == dagsched.StatusNone {
			violate("executed-final-status", "the recorded status of the finished run is "+rec[0].Status.Status.String())
		}
		c.Count("executed_read_back", 1)
		c.SetAdd("executed_outcomes", rec[0].Status.Status.String())
	})
	if g.panicked {
		violate("panic|"+g.fn, "reading back the recorded run panicked: "+clip(g.msg, 200))
	}
}

func c13Body(c *core.Ctx) {
	n := c.Pick(18000, 300000)
	root, err := os.MkdirTemp(c.Scratch, "c13-")
	if err != nil {
		c.Inconclusive("mkdtemp")
		return
	}
	defer os.RemoveAll(root)
	// commands that evaluated loads may run resolve only inside this directory
	bin := filepath.Join(root, "bin")
	_ = os.MkdirAll(bin, 0755)
	for _, p := range []string{"/bin/sh", "/bin/echo", "/bin/true", "/bin/false"} {
		_ = os.Symlink(p, filepath.Join(bin, filepath.Base(p)))
	}
	os.Setenv("PATH", bin)
	os.Unsetenv("VERIF_UNSET_VAR")
	e := &c13Env{c: c, dir: filepath.Join(root, "dags"), stores: &c13Stores{dags: filepath.Join(root, "dags"), data: filepath.Join(root, "data"), suspend: filepath.Join(root, "suspend")}}
	_ = os.MkdirAll(e.dir, 0755)
	for idx := 0; idx < n; idx++ {
		if !c.Mine(idx) {
			continue
		}
		d := c13Gen(c, idx)
		c.Begin(idx, d)
		c.Eval(1)
		c.SetAdd("doc_kinds", d.Kind)
		c13OneDoc(e, idx, d)
		c.End(idx)
	}
}

func c13CrashKey(caseDesc, output string) (string, string) {
	k, w := crashKeyGeneric(caseDesc, output)
	if strings.Contains(output, "stack overflow") || strings.Contains(output, "goroutine stack exceeds") {
		k = "crash:stack-overflow"
	}
	return k, w + " — open document: " + clip(caseDesc, 600)
}

func init() {
	core.Register(&core.Prop{ID: "C13", Level: "exploration", Body: c13Body, CrashKey: c13CrashKey, MinDistinct: 2000,
		Passes: func(tier string) []core.Pass {
			return []core.Pass{{Name: "main", Mode: "load", Shards: 16, Timeout: 60 * time.Minute}}
		},
		Rule:        "Documents: valid definitions drawn from a grammar (plus a sub-grammar of quickly executable command-only definitions, a third of them with one mutation, so that the executed subset is large) covering every documented field (schedule in its three forms, env list/map, params, logDir, handlers, functions/call, sub-workflow, executor string/map/nested config, preconditions incl. re:, retry/repeat/continueOn, signalOnStop, mail/smtp, limits); 1-3 structural mutations of such a tree (type confusion scalar/list/map/null, delete, duplicate key, wrap in list/map, unknown key, non-string keys, null list elements, hostile strings: invalid regex/cron/signal, YAML 1.1 booleans, 70 kB strings, unicode); a quarter additionally byte-mutated; raw random bytes; deeply nested documents (50-20000 levels); a hand-written corpus aimed at every hand-coded type switch. Each document goes, inside a child process that logs BEGIN/END around it, through dag.LoadYAML, LoadMetadata, LoadWithoutEval, (safe-pool strings only) Load and Load with the document as base configuration, DAGStore.GetMetadata/GetDetails/List/Grep/TagList/UpdateSpec, client.GetStatus/GetAllStatus, and the scheduler daemon (directory scan, one tick, then the same document created and rewritten while the directory watcher runs, and another tick). Refuted by: a panic (caught per call, keyed by the innermost blackdagger frame) or process death, a call that does not return in 30 s, an accepted definition with a step without name / with nothing to execute, a schedule entry that is not parsed or not parseable, an unknown signalOnStop, a status (model.NewStatus) that cannot be JSON-encoded, read back and re-encoded identically; EvalConditions panicking; for accepted definitions whose steps are harmless (true/false/echo/sh, no repeat; mail notifications only where no SMTP host is configured, so that sending fails on the spot) the real Agent.Run over a real history store: panic, served status not encodable, run file present but not readable back with the request id and a final status. Non-trivial & distinct = distinct document texts.",
		Assumptions: []string{"commands that an evaluating load may execute resolve only inside a scratch bin directory (sh, echo, true, false)", "the executed subset is restricted to harmless short steps; a run that exceeds 20 s is counted, not judged"}})
}
