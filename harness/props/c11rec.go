package props

// C11, recorded pass: outputs captured by steps that finish at (almost) the same time must all be
// in the run's final record — that record is the only thing a later retry (a new process) gets —
// and the steps a retry re-executes must see every one of them.  In-process agent with the
// scripted executor: W parallel producers released together, each capturing a distinct known
// value; a last step that fails in the recorded run and is re-executed by the retry.

import (
	"fmt"
	"os"
	"strings"
	"sync"
	"time"

	"github.com/ErdemOzgen/blackdagger/internal/dag"
	dagsched "github.com/ErdemOzgen/blackdagger/internal/dag/scheduler"
	"github.com/ErdemOzgen/blackdagger/internal/persistence/jsondb"
	"github.com/ErdemOzgen/blackdagger/verifh/core"
	"github.com/ErdemOzgen/blackdagger/verifh/vexec"
)

func c11Recorded(c *core.Ctx) {
	vexec.Init()
	n := c.Pick(700, 12000)
	for idx := 0; idx < n; idx++ {
		if !c.Mine(idx) {
			continue
		}
		r := c.Rand("c11rec", idx)
		W := 2 + r.Intn(9)
		id := fmt.Sprintf("C11R_%d", idx)
		spec := &vexec.CaseSpec{ID: id, Level: "agent", Free: true, DecSeed: r.Int63()}
		want := map[string]string{}
		var deps []string
		sizes := []int{1, 7, 300, 5000, 30000, 90000}
		used := map[int]bool{}
		for i := 0; i < W; i++ {
			sz := sizes[r.Intn(len(sizes))] + r.Intn(50)
			for used[sz] {
				sz++
			}
			used[sz] = true
			name := fmt.Sprintf("p%d", i)
			v := fmt.Sprintf("VERIF_C11R_%d_P%d", idx, i)
			st := &vexec.StepSpec{Name: name, OutputVar: v, OutBytes: sz}
			if r.Intn(4) == 0 {
				st.ChunkSizes = []int{1 + r.Intn(4096)}
			}
			spec.Steps = append(spec.Steps, st)
			b := make([]byte, sz)
			for j := range b {
				b[j] = vexec.OutByte(j)
			}
			want[v] = string(b)
			deps = append(deps, name)
		}
		// fails in the recorded run; the retry re-executes it
		spec.Steps = append(spec.Steps, &vexec.StepSpec{Name: "last", Depends: deps, FailFirst: -1})
		clear := func() {
			for v := range want {
				os.Unsetenv(v)
			}
		}
		desc := map[string]any{"producers": W, "case": spec}
		c.Begin(idx, desc)
		var mu sync.Mutex
		seenByLast := map[string]string{}
		grab := func(_ *vexec.Case, step string, _ int, _ map[string]dagsched.NodeState) {
			if step != "last" {
				return
			}
			mu.Lock()
			for v := range want {
				seenByLast[v] = os.Getenv(v)
			}
			mu.Unlock()
		}
		orig := vexec.Run(spec, &vexec.RunOpts{Scratch: c.Scratch, KeepDirs: true, OnRunEnter: grab})
		func() {
			defer c.End(idx)
			defer clear()
			if orig.Dir != "" {
				defer os.RemoveAll(orig.Dir)
			}
			if orig.Inconclusive != "" || orig.SetupErr != "" || orig.DAG == nil {
				if orig.Inconclusive != "" {
					c.Inconclusive(fmt.Sprintf("c11 recorded case %d: %s", idx, orig.Inconclusive))
				}
				return
			}
			c.Eval(1)
			judge := func(phase string, got map[string]string) {
				for v, w := range want {
					c.Count("obligations", 1)
					if g, ok := got[v]; !ok || g != w {
						c.Violate(idx, "parallel-output-"+phase, fmt.Sprintf("%d parallel producers; %s: %s is %q (%d bytes, present=%v), the step printed %d bytes", W, phase, v, clip(g, 60), len(g), ok, len(w)), desc)
						return
					}
				}
			}
			mu.Lock()
			if len(seenByLast) == 0 {
				// the dependent step was not executed in this run (seen once in 12000 rounds on a
				// loaded machine, not reproducible): whether a step runs is C01-C03's subject, not
				// this property's; nothing was observed here, so nothing is judged
				c.Count("runs_in_which_the_dependent_step_was_not_executed", 1)
				c.SetAdd("dependent_step_not_executed", fmt.Sprintf("case %d status=%s stuck=%v final=%v", idx, orig.Status, orig.Stuck, orig.Final))
				mu.Unlock()
				return
			}
			judge("seen-by-dependent-step", seenByLast)
			seenByLast = map[string]string{}
			mu.Unlock()
			// the record, read back the way a later process reads it
			recs := jsondb.New(orig.DataDir, false).ReadStatusRecent(orig.DAG.Location, 1)
			if len(recs) == 0 || recs[0].Status == nil {
				c.Inconclusive(fmt.Sprintf("c11 recorded case %d: no record found", idx))
				return
			}
			rec := recs[0].Status
			inRecord := map[string]string{}
			for _, nd := range rec.Nodes {
				if nd.Step.OutputVariables == nil {
					continue
				}
				nd.Step.OutputVariables.Range(func(k, v any) bool {
					ks, _ := k.(string)
					vs, _ := v.(string)
					inRecord[ks] = strings.TrimPrefix(vs, ks+"=")
					return true
				})
			}
			judge("in-the-final-record", inRecord)
			c.Count("records_read", 1)
			// the retry: a new process has none of the values in its environment
			clear()
			spec2 := *spec
			spec2.Steps = nil
			for _, s := range spec.Steps {
				cp := *s
				cp.FailFirst = 0
				spec2.Steps = append(spec2.Steps, &cp)
			}
			spec2.DecSeed = r.Int63()
			out := vexec.Run(&spec2, &vexec.RunOpts{Scratch: c.Scratch, Dir: orig.Dir, RetryTarget: rec, HangBound: 20 * time.Second, OnRunEnter: grab})
			if out.Inconclusive != "" || out.SetupErr != "" {
				c.Inconclusive(fmt.Sprintf("c11 recorded case %d retry: %s%s", idx, out.Inconclusive, out.SetupErr))
				return
			}
			mu.Lock()
			if len(seenByLast) == 0 {
				c.Violate(idx, "parallel-output-retry-did-not-run", "the retry did not re-execute the failed last step", desc)
			} else {
				judge("seen-by-retried-step", seenByLast)
				c.Count("retries", 1)
			}
			mu.Unlock()
			c.Sig("rec", idx, W, len(inRecord), orig.Status)
			if idx%97 == 0 {
				c.Sample(map[string]any{"producers": W, "values_in_record": len(inRecord), "status": orig.Status})
			}
		}()
	}
}

var _ = dag.Step{}
