package props

import (
	"encoding/json"
	"fmt"
	"os"

	"github.com/ErdemOzgen/blackdagger/verifh/core"
	"github.com/ErdemOzgen/blackdagger/verifh/vexec"
)

func init() {
	core.Sub["case"] = func(args []string) int {
		b, err := os.ReadFile(args[0])
		if err != nil {
			fmt.Println(err)
			return 2
		}
		var spec vexec.CaseSpec
		if err := json.Unmarshal(b, &spec); err != nil {
			// maybe a replay file
			var rp struct {
				Case vexec.CaseSpec `json:"case"`
			}
			if err2 := json.Unmarshal(b, &rp); err2 != nil {
				fmt.Println(err)
				return 2
			}
			spec = rp.Case
		}
		if spec.ID == "" {
			var rp struct {
				Case vexec.CaseSpec `json:"case"`
			}
			_ = json.Unmarshal(b, &rp)
			spec = rp.Case
		}
		vexec.Init()
		var obl int64
		out := vexec.Run(&spec, &vexec.RunOpts{Scratch: os.TempDir(), OnRunEnter: OnlineMonitors(&spec, &obl)})
		for _, e := range out.Events {
			fmt.Println(e)
		}
		fmt.Printf("status=%s err=%q stuck=%v hung=%v inconclusive=%q setupErr=%q\n", out.Status, out.SchedErr, out.Stuck, out.Hung, out.Inconclusive, out.SetupErr)
		fb, _ := json.Marshal(out.Final)
		fmt.Println("final:", string(fb))
		hb, _ := json.Marshal(out.HandlerFinal)
		fmt.Println("handlers:", string(hb))
		fmt.Println("taken:", out.Taken, out.OptCounts)
		for _, p := range []string{"C01", "C02", "C03", "C04", "C05", "C15"} {
			rs, _ := judgeAll(p, &spec, out)
			for _, r := range rs {
				fmt.Printf("REPORT %s %s: %s\n", r.Prop, r.Key, r.What)
			}
		}
		return 0
	}
}
