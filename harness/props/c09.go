package props

// C09 — the cron daemon on simulated time.  Real scheduler.New(cfg, logger,
// fake) from /repo, ticked minute by minute through the verif-tagged wrappers;
// a recording fake of client.Client is both the observer and the ground truth
// for "running / last start"; the independent matcher of c09cron.go says which
// minutes are scheduled.

import (
	"bytes"
	"fmt"
	"math/rand"
	"os"
	"path/filepath"
	"runtime"
	"sort"
	"strings"
	"sync"
	"time"

	"github.com/ErdemOzgen/blackdagger/internal/client"
	"github.com/ErdemOzgen/blackdagger/internal/config"
	"github.com/ErdemOzgen/blackdagger/internal/dag"
	dagsched "github.com/ErdemOzgen/blackdagger/internal/dag/scheduler"
	"github.com/ErdemOzgen/blackdagger/internal/frontend/gen/restapi/operations/dags"
	"github.com/ErdemOzgen/blackdagger/internal/logger"
	"github.com/ErdemOzgen/blackdagger/internal/persistence"
	"github.com/ErdemOzgen/blackdagger/internal/persistence/model"
	"github.com/ErdemOzgen/blackdagger/internal/scheduler"
	"github.com/ErdemOzgen/blackdagger/internal/util"
	"github.com/ErdemOzgen/blackdagger/verifh/core"
)

// ---- the recording fake --------------------------------------------------------

type cronRun struct {
	startedAt time.Time
	endTick   int // the run is "running" while tickNo < endTick
	status    dagsched.Status
}

type cronCall struct {
	Kind string // start stop restart status
	Dag  string // file base name
}

type cronFake struct {
	mu        sync.Mutex
	tickNo    int
	wall      time.Time
	runs      map[string][]*cronRun // by file base name
	suspended map[string]bool       // by id (base name without extension)
	calls     []cronCall
	parked    int
	release   chan struct{}
	pending   []func()
	durOf     func(dag string) int
	other     []string
}

func newCronFake() *cronFake {
	return &cronFake{runs: map[string][]*cronRun{}, suspended: map[string]bool{}, release: make(chan struct{})}
}

func (f *cronFake) latest(base string) *cronRun {
	rs := f.runs[base]
	if len(rs) == 0 {
		return nil
	}
	return rs[len(rs)-1]
}

func (f *cronFake) isRunning(base string) bool {
	r := f.latest(base)
	return r != nil && r.status == dagsched.StatusRunning
}

// beginTick advances the fake's world: runs whose scripted duration is over end.
func (f *cronFake) beginTick(wall time.Time) {
	f.mu.Lock()
	f.tickNo++
	f.wall = wall
	for _, rs := range f.runs {
		for _, r := range rs {
			if r.status == dagsched.StatusRunning && f.tickNo >= r.endTick {
				r.status = dagsched.StatusSuccess
			}
		}
	}
	f.calls = nil
	f.mu.Unlock()
}

func (f *cronFake) record(kind string, d *dag.DAG) string {
	base := filepath.Base(d.Location)
	f.calls = append(f.calls, cronCall{kind, base})
	return base
}

func (f *cronFake) GetLatestStatus(d *dag.DAG) (*model.Status, error) {
	f.mu.Lock()
	defer f.mu.Unlock()
	base := f.record("status", d)
	st := model.NewStatusDefault(d)
	if r := f.latest(base); r != nil {
		st.Status = r.status
		st.StatusText = r.status.String()
		st.StartedAt = util.FormatTime(r.startedAt)
		st.RequestID = fmt.Sprintf("run-%d", len(f.runs[base]))
	}
	return st, nil
}

func (f *cronFake) addRun(base string, startedAt time.Time) {
	d := 0
	if f.durOf != nil {
		d = f.durOf(base)
	}
	r := &cronRun{startedAt: startedAt, endTick: f.tickNo + 1 + d, status: dagsched.StatusRunning}
	if d == 0 {
		// over before the next tick
		r.endTick = f.tickNo + 1
	}
	f.runs[base] = append(f.runs[base], r)
}

// Start records the call on entry and makes the new run visible only when the
// tick is otherwise quiescent (a real `blackdagger start` is a process spawn
// whose history appears tens of milliseconds later).
func (f *cronFake) Start(d *dag.DAG, _ client.StartOptions) error {
	f.mu.Lock()
	base := f.record("start", d)
	wall := f.wall
	n := len(f.calls)
	// the first start of a tick is recorded with the wall clock itself (which is
	// often exactly second :00 of the minute), later ones some seconds into it
	f.pending = append(f.pending, func() { f.addRun(base, wall.Add(time.Duration((n-1)*7%60)*time.Second)) })
	f.parked++
	rel := f.release
	f.mu.Unlock()
	<-rel
	return nil
}

func (f *cronFake) Stop(d *dag.DAG) error {
	f.mu.Lock()
	defer f.mu.Unlock()
	base := f.record("stop", d)
	f.pending = append(f.pending, func() {
		if r := f.latest(base); r != nil && r.status == dagsched.StatusRunning {
			r.status = dagsched.StatusCancel
		}
	})
	return nil
}

func (f *cronFake) Restart(d *dag.DAG, _ client.RestartOptions) error {
	f.mu.Lock()
	defer f.mu.Unlock()
	base := f.record("restart", d)
	wall := f.wall
	f.pending = append(f.pending, func() {
		if r := f.latest(base); r != nil && r.status == dagsched.StatusRunning {
			r.status = dagsched.StatusCancel
		}
		f.addRun(base, wall.Add(30*time.Second))
	})
	return nil
}

func (f *cronFake) IsSuspended(id string) bool {
	f.mu.Lock()
	defer f.mu.Unlock()
	return f.suspended[id]
}

// settle applies the effects of the calls of this tick and lets parked Start
// calls return. Called by the driver when the tick is otherwise quiescent.
func (f *cronFake) settle() {
	f.mu.Lock()
	for _, p := range f.pending {
		p()
	}
	f.pending = nil
	f.parked = 0
	close(f.release)
	f.release = make(chan struct{})
	f.mu.Unlock()
}

func (f *cronFake) unexpected(name string) {
	f.mu.Lock()
	f.other = append(f.other, name)
	f.mu.Unlock()
}

func (f *cronFake) CreateDAG(string) (string, error)  { f.unexpected("CreateDAG"); return "", nil }
func (f *cronFake) GetDAGSpec(string) (string, error) { f.unexpected("GetDAGSpec"); return "", nil }
func (f *cronFake) Grep(string) ([]*persistence.GrepResult, []string, error) {
	f.unexpected("Grep")
	return nil, nil, nil
}
func (f *cronFake) Rename(string, string) error              { f.unexpected("Rename"); return nil }
func (f *cronFake) StartAsync(*dag.DAG, client.StartOptions) { f.unexpected("StartAsync") }
func (f *cronFake) Retry(*dag.DAG, string) error             { f.unexpected("Retry"); return nil }
func (f *cronFake) GetCurrentStatus(d *dag.DAG) (*model.Status, error) {
	f.unexpected("GetCurrentStatus")
	return model.NewStatusDefault(d), nil
}
func (f *cronFake) GetStatusByRequestID(d *dag.DAG, _ string) (*model.Status, error) {
	f.unexpected("GetStatusByRequestID")
	return model.NewStatusDefault(d), nil
}
func (f *cronFake) GetRecentHistory(*dag.DAG, int) []*model.StatusFile {
	f.unexpected("GetRecentHistory")
	return nil
}
func (f *cronFake) UpdateStatus(*dag.DAG, *model.Status) error {
	f.unexpected("UpdateStatus")
	return nil
}
func (f *cronFake) UpdateDAG(string, string) error { f.unexpected("UpdateDAG"); return nil }
func (f *cronFake) DeleteDAG(string, string) error { f.unexpected("DeleteDAG"); return nil }
func (f *cronFake) GetAllStatus() ([]*client.DAGStatus, []string, error) {
	f.unexpected("GetAllStatus")
	return nil, nil, nil
}
func (f *cronFake) GetAllStatusPagination(dags.ListDagsParams) ([]*client.DAGStatus, *client.DagListPaginationSummaryResult, error) {
	f.unexpected("GetAllStatusPagination")
	return nil, &client.DagListPaginationSummaryResult{}, nil
}
func (f *cronFake) GetStatus(string) (*client.DAGStatus, error) {
	f.unexpected("GetStatus")
	return nil, nil
}
func (f *cronFake) ToggleSuspend(string, bool) error { f.unexpected("ToggleSuspend"); return nil }
func (f *cronFake) GetTagList() ([]string, []string, error) {
	f.unexpected("GetTagList")
	return nil, nil, nil
}

var _ client.Client = (*cronFake)(nil)

// ---- DAG files of a set --------------------------------------------------------

type cronSpec struct {
	Kind     string   `json:"kind"`
	Start    []string `json:"start,omitempty"`
	Stop     []string `json:"stop,omitempty"`
	Restart  []string `json:"restart,omitempty"`
	Loadable bool     `json:"loadable"`
	start    []*cronExpr
	stop     []*cronExpr
	restart  []*cronExpr
}

type cronFile struct {
	Name      string    `json:"file"`
	Text      string    `json:"text"`
	Suspended bool      `json:"suspended,omitempty"`
	Dur       int       `json:"runTicks"`
	Spec      *cronSpec `json:"spec"`
	// during a watcher transition the previous spec is still acceptable
	prev      *cronSpec
	prevSince time.Time
	classes   []string
}

func (s *cronSpec) compile() *cronSpec {
	c := func(xs []string) []*cronExpr {
		var out []*cronExpr
		for _, x := range xs {
			e, err := parseCron5(x)
			if err != nil {
				panic("harness generated an expression its own matcher rejects: " + x + ": " + err.Error())
			}
			out = append(out, e)
		}
		return out
	}
	s.start, s.stop, s.restart = c(s.Start), c(s.Stop), c(s.Restart)
	return s
}

func anyMatch(es []*cronExpr, t time.Time) bool {
	for _, e := range es {
		if e.match(t) {
			return true
		}
	}
	return false
}

func yamlQ(s string) string { return `"` + s + `"` }

func yamlList(xs []string) string {
	var q []string
	for _, x := range xs {
		q = append(q, yamlQ(x))
	}
	return "[" + strings.Join(q, ", ") + "]"
}

const cronSteps = "steps:\n  - name: s1\n    command: \"true\"\n"

// genCronFile draws one file of a DAG set.
func genCronFile(r *rand.Rand, i int) *cronFile {
	f := &cronFile{Name: fmt.Sprintf("d%02d.yaml", i), Dur: []int{0, 0, 0, 1, 2, 5, 30}[r.Intn(7)]}
	exprs := func(n int) []string {
		var out []string
		for k := 0; k < n; k++ {
			e, cl := genCronExpr(r)
			out = append(out, e)
			f.classes = append(f.classes, cl)
		}
		return out
	}
	sp := &cronSpec{Loadable: true}
	switch k := r.Intn(20); {
	case k < 5:
		sp.Kind = "single"
		sp.Start = exprs(1)
		f.Text = "schedule: " + yamlQ(sp.Start[0]) + "\n" + cronSteps
	case k < 9:
		sp.Kind = "list"
		sp.Start = exprs(2 + r.Intn(2))
		if r.Intn(2) == 0 { // overlapping list: the same minutes are named twice
			switch r.Intn(3) {
			case 0:
				sp.Start = append(sp.Start, sp.Start[0])
			case 1:
				sp.Start = []string{"*/5 * * * *", "*/10 * * * *", "0 * * * *"}
			default:
				sp.Start = append(sp.Start, "* * * * *")
			}
			sp.Kind = "list-overlapping"
		}
		f.Text = "schedule: " + yamlList(sp.Start) + "\n" + cronSteps
	case k < 14:
		sp.Kind = "map"
		var lines []string
		add := func(key string, dst *[]string) {
			switch r.Intn(3) {
			case 0:
			case 1:
				*dst = exprs(1)
				lines = append(lines, "  "+key+": "+yamlQ((*dst)[0]))
			default:
				*dst = exprs(1 + r.Intn(2))
				lines = append(lines, "  "+key+": "+yamlList(*dst))
			}
		}
		add("start", &sp.Start)
		add("stop", &sp.Stop)
		add("restart", &sp.Restart)
		if len(lines) == 0 {
			sp.Stop = []string{"*/3 * * * *"}
			lines = append(lines, "  stop: "+yamlQ(sp.Stop[0]))
		}
		r.Shuffle(len(lines), func(a, b int) { lines[a], lines[b] = lines[b], lines[a] })
		f.Text = "schedule:\n" + strings.Join(lines, "\n") + "\n" + cronSteps
		if f.Dur == 0 {
			f.Dur = 3 // stop schedules need something running
		}
	case k < 15:
		sp.Kind = "suspended"
		sp.Start = exprs(1)
		if r.Intn(2) == 0 {
			sp.Start = []string{"* * * * *"}
		}
		f.Suspended = true
		f.Text = "schedule: " + yamlQ(sp.Start[0]) + "\n" + cronSteps
	case k < 16:
		sp.Kind = "no-schedule"
		f.Text = cronSteps
	case k < 17:
		sp.Kind = "invalid-yaml"
		sp.Loadable = false
		f.Text = pickS(r, "schedule: \"* * * * *\"\nsteps:\n  - name: a\n   command: x\n", ": : :\n\t- [", "schedule: [\"* * * * *\"\nsteps: []\n", "\x00\x01\x02", "{{{")
	case k < 18:
		sp.Kind = "invalid-cron"
		sp.Loadable = false
		f.Text = "schedule: " + yamlQ(pickS(r, "60 * * * *", "* * *", "a b c d e", "* * * * 7", "*/0 * * * *", "1-0 * * * *", "* * * * * *", "* 24 * * *", "* * 0 * *", "* * * 13 *")) + "\n" + cronSteps
	case k < 19:
		sp.Kind = "loader-hostile"
		sp.Loadable = false
		f.Text = pickS(r,
			"schedule:\n  foo: \"* * * * *\"\n"+cronSteps,
			"schedule:\n  1: \"* * * * *\"\n"+cronSteps,
			"schedule:\n  start: {a: b}\n"+cronSteps,
			"schedule: 5\n"+cronSteps,
			"schedule: [\"* * * * *\", 3]\n"+cronSteps,
			"schedule:\n  start: [\"* * * * *\", ~]\n"+cronSteps,
			"schedule: \"* * * * *\"\nsteps:\n  - ~\n",
			"schedule: \"* * * * *\"\nsteps: 7\n",
			"schedule: \"* * * * *\"\nenv: [~]\n"+cronSteps,
			"schedule: \"* * * * *\"\ntags: {a: [1]}\n"+cronSteps,
			"schedule: \"* * * * *\"\nname: [x]\n"+cronSteps,
			"schedule: \"* * * * *\"\nsmtp: {1: 2}\n"+cronSteps,
			"schedule: \"* * * * *\"\nfunctions: [~]\n"+cronSteps,
			"schedule: \"* * * * *\"\npreconditions: [~]\n"+cronSteps,
			"schedule: \"* * * * *\"\nhandlerOn: {exit: ~}\n"+cronSteps,
			"schedule: \"* * * * *\"\nhandlerOn: 3\n"+cronSteps,
		)
		// whether such a file loads is the loader's business (C13); here it must
		// not disturb the others, and if it is scheduled at all then only on its
		// own (every-minute) schedule
		sp.Kind = "loader-hostile"
	default:
		sp.Kind = "not-a-dag-file"
		sp.Loadable = false
		f.Name = fmt.Sprintf("d%02d.%s", i, pickS(r, "txt", "yaml.bak", "json", "yamlx"))
		f.Text = "schedule: \"* * * * *\"\n" + cronSteps
	}
	if sp.Loadable && sp.Kind != "loader-hostile" && strings.HasPrefix(f.Text, "schedule:") && r.Intn(3) == 0 {
		// a name: that differs from the file name (suspension, history and sockets go by the file)
		f.Text = fmt.Sprintf("name: job-%d-renamed\n", i) + f.Text
		f.classes = append(f.classes, "explicit-name")
	}
	f.Spec = sp.compile()
	return f
}

// ---- harness -------------------------------------------------------------------

type cronHarness struct {
	tickHung bool
	dir      string
	fake     *cronFake
	files    map[string]*cronFile
	sched    *scheduler.Scheduler
	done     chan any
	lg       logger.Logger
}

const cronCreatedBy = "created by github.com/ErdemOzgen/blackdagger/internal/scheduler."

var cronStackBuf = make([]byte, 1<<20)

// tickGoroutines counts the goroutines the daemon created for the entries of a
// tick (everything created by the scheduler package except its directory watcher).
func tickGoroutines() int {
	for {
		n := runtime.Stack(cronStackBuf, true)
		if n < len(cronStackBuf) {
			c := 0
			b := cronStackBuf[:n]
			for {
				i := bytes.Index(b, []byte(cronCreatedBy))
				if i < 0 {
					break
				}
				rest := b[i+len(cronCreatedBy):]
				if !bytes.HasPrefix(rest, []byte("(*entryReaderImpl)")) {
					c++
				}
				b = rest
			}
			return c
		}
		cronStackBuf = make([]byte, 2*len(cronStackBuf))
	}
}

func (h *cronHarness) newDaemon(watch bool) (err error) {
	defer func() {
		if p := recover(); p != nil {
			err = fmt.Errorf("scheduler.New panicked: %v", p)
		}
	}()
	h.stopDaemon()
	cfg := &config.Config{DAGs: h.dir, WorkDir: h.dir, Executable: "/bin/false", LogDir: filepath.Join(h.dir, "..", "logs")}
	h.sched = scheduler.New(cfg, h.lg, h.fake)
	if watch {
		h.done = make(chan any)
		h.sched.VerifStartWatcher(h.done)
	}
	return nil
}

func (h *cronHarness) stopDaemon() {
	if h.done != nil {
		close(h.done)
		h.done = nil
	}
	h.sched = nil
}

// tick runs one scheduler tick for minute m at simulated wall time wall and
// returns the calls the fake received, once the tick is complete.
func (h *cronHarness) tick(m, wall time.Time) ([]cronCall, bool) {
	h.fake.beginTick(wall)
	ticked := make(chan struct{})
	go func() { h.sched.VerifTick(m); close(ticked) }()
	select {
	case <-ticked:
	case <-time.After(30 * time.Second):
		h.tickHung = true // the tick itself never returned (its goroutine is abandoned)
		return nil, false
	}
	deadline := time.Now().Add(60 * time.Second)
	spin := 0
	for {
		n := tickGoroutines()
		h.fake.mu.Lock()
		p := h.fake.parked
		h.fake.mu.Unlock()
		if n == p {
			break
		}
		if spin++; spin > 50 {
			time.Sleep(50 * time.Microsecond)
		} else {
			runtime.Gosched()
		}
		if time.Now().After(deadline) {
			return nil, false
		}
	}
	h.fake.settle()
	for tickGoroutines() > 0 {
		runtime.Gosched()
		if time.Now().After(deadline) {
			return nil, false
		}
	}
	h.fake.mu.Lock()
	calls := append([]cronCall(nil), h.fake.calls...)
	h.fake.mu.Unlock()
	return calls, true
}

type cronExpect struct {
	start, stop, restart bool
	judgeStopRestart     bool
}

func cronWant(f *cronFile, sp *cronSpec, m time.Time, running bool, lastStart time.Time, hasRun bool) cronExpect {
	var e cronExpect
	if sp == nil || !sp.Loadable || f.Suspended {
		return e
	}
	e.judgeStopRestart = true
	if anyMatch(sp.start, m) && !running && !(hasRun && !lastStart.Truncate(time.Minute).Before(m)) {
		e.start = true
	}
	e.stop = anyMatch(sp.stop, m) && running
	e.restart = anyMatch(sp.restart, m)
	return e
}

func cronCheckOne(f *cronFile, sp *cronSpec, m time.Time, running bool, lastStart time.Time, hasRun bool, nStart, nStop, nRestart int) (key, what string) {
	e := cronWant(f, sp, m, running, lastStart, hasRun)
	ms := m.UTC().Format("2006-01-02 Mon 15:04")
	desc := fmt.Sprintf("%s (%s start=%v stop=%v restart=%v suspended=%v) at %s, running=%v lastStart=%s", f.Name, sp.Kind, sp.Start, sp.Stop, sp.Restart, f.Suspended, ms, running, util.FormatTime(lastStart))
	if sp.Kind == "loader-hostile" {
		// whether such a document loads is the loader's business (C13); if it
		// does it carries an every-minute schedule, so nothing is demanded here
		return "", ""
	}
	switch {
	case !sp.Loadable && nStart+nStop+nRestart > 0:
		return "call-for-unloadable|" + sp.Kind, "a file that is not a loadable DAG definition got scheduler calls: " + desc
	case e.start && nStart == 0:
		return "missed-start|" + sp.Kind, "scheduled minute missed (no start issued): " + desc
	case e.start && nStart > 1:
		return "double-start|" + sp.Kind, fmt.Sprintf("%d starts issued for the same DAG in one minute: %s", nStart, desc)
	case !e.start && nStart > 0:
		why := "no start schedule matches this minute"
		switch {
		case f.Suspended:
			why = "the DAG is suspended"
		case anyMatch(sp.start, m) && running:
			why = "the DAG is running"
		case anyMatch(sp.start, m):
			why = "its most recent run started in or after this minute"
		}
		k := "spurious-start|"
		if f.Suspended {
			k = "start-suspended|"
		} else if anyMatch(sp.start, m) {
			k = "start-guard|"
		} else if cronNever(sp.start) {
			k = "start-never-firing|"
		}
		return k + sp.Kind, fmt.Sprintf("start issued although %s: %s", why, desc)
	}
	if !e.judgeStopRestart {
		if f.Suspended && (nStop > 0 || nRestart > 0) {
			return "", "" // not judged: the statement is silent on stop/restart of suspended DAGs
		}
		return "", ""
	}
	switch {
	case e.stop && nStop == 0:
		return "missed-stop|" + sp.Kind, "stop schedule matches a running DAG but no stop was issued: " + desc
	case !e.stop && nStop > 0:
		k := "stop-not-running|"
		if !anyMatch(sp.stop, m) {
			k = "spurious-stop|"
			if cronNever(sp.stop) {
				k = "stop-never-firing|"
			}
		}
		return k + sp.Kind, "stop issued although the DAG is not running or no stop schedule matches: " + desc
	case e.restart && nRestart == 0:
		return "missed-restart|" + sp.Kind, "restart schedule matches but no restart was issued: " + desc
	case !e.restart && nRestart > 0:
		k := "spurious-restart|"
		if cronNever(sp.restart) {
			k = "restart-never-firing|"
		}
		return k + sp.Kind, "restart issued at a minute no restart schedule matches: " + desc
	}
	return "", ""
}

// cronNever reports whether every expression of the list names a date that never comes.
func cronNever(es []*cronExpr) bool {
	if len(es) == 0 {
		return false
	}
	for _, e := range es {
		if _, ok := e.nextMatch(time.Date(2027, 1, 1, 0, 0, 0, 0, time.UTC), 4*366); ok {
			return false
		}
	}
	return true
}

// judge compares the calls of one tick with the expectation for every file.
// pre is the fake's state at the beginning of the tick.
type cronPre struct {
	running   bool
	lastStart time.Time
	hasRun    bool
}

func (h *cronHarness) snapshot() map[string]cronPre {
	h.fake.mu.Lock()
	defer h.fake.mu.Unlock()
	out := map[string]cronPre{}
	for name := range h.files {
		var p cronPre
		if r := h.fake.latest(name); r != nil {
			p.hasRun = true
			p.lastStart = r.startedAt
			// what the daemon will see once beginTick has aged the runs
			p.running = r.status == dagsched.StatusRunning && h.fake.tickNo+1 < r.endTick
		}
		out[name] = p
	}
	return out
}

type cronVerdict struct {
	key, what string
	file      string
}

func (h *cronHarness) judge(m time.Time, pre map[string]cronPre, calls []cronCall, c *core.Ctx) []cronVerdict {
	type cnt struct{ start, stop, restart int }
	per := map[string]*cnt{}
	for _, cl := range calls {
		x := per[cl.Dag]
		if x == nil {
			x = &cnt{}
			per[cl.Dag] = x
		}
		switch cl.Kind {
		case "start":
			x.start++
		case "stop":
			x.stop++
		case "restart":
			x.restart++
		}
	}
	var out []cronVerdict
	names := make([]string, 0, len(h.files))
	for n := range h.files {
		names = append(names, n)
	}
	sort.Strings(names)
	for _, n := range names {
		f := h.files[n]
		x := per[n]
		if x == nil {
			x = &cnt{}
		}
		delete(per, n)
		p := pre[n]
		key, what := cronCheckOne(f, f.Spec, m, p.running, p.lastStart, p.hasRun, x.start, x.stop, x.restart)
		if key != "" && f.prev != nil {
			// a change of the file may not have reached the daemon yet
			k2, _ := cronCheckOne(f, f.prev, m, p.running, p.lastStart, p.hasRun, x.start, x.stop, x.restart)
			if k2 == "" {
				if time.Since(f.prevSince) < 10*time.Second {
					c.Count("watcher_transition_ticks", 1)
					key = ""
				} else {
					key, what = "watcher-stale|"+f.Spec.Kind, "10 s after the file changed the daemon still schedules its previous content: "+what
				}
			}
		} else if key == "" && f.prev != nil {
			k2, _ := cronCheckOne(f, f.prev, m, p.running, p.lastStart, p.hasRun, x.start, x.stop, x.restart)
			if k2 != "" { // behaviour that only the new content explains: the change has arrived
				f.prev = nil
				c.Count("watcher_changes_reflected", 1)
			}
		}
		c.Count("obligations", 1)
		e := cronWant(f, f.Spec, m, p.running, p.lastStart, p.hasRun)
		if e.start {
			c.Count("starts_expected", 1)
		}
		if anyMatch(f.Spec.start, m) && !e.start && f.Spec.Loadable {
			switch {
			case f.Suspended:
				c.Count("guard_suspended", 1)
			case p.running:
				c.Count("guard_running", 1)
			default:
				c.Count("guard_already_started_this_minute", 1)
			}
		}
		if e.stop {
			c.Count("stops_expected", 1)
		}
		if e.restart {
			c.Count("restarts_expected", 1)
		}
		if key != "" {
			out = append(out, cronVerdict{key, what, n})
		}
	}
	for n, x := range per {
		if x.start+x.stop+x.restart > 0 {
			out = append(out, cronVerdict{"call-for-unknown-file", fmt.Sprintf("scheduler calls for %s which is not in the DAGs directory (start=%d stop=%d restart=%d)", n, x.start, x.stop, x.restart), n})
		}
	}
	return out
}

// ---- tick plans ----------------------------------------------------------------

type cronWindow struct {
	Start   time.Time `json:"start"`
	Ticks   int       `json:"ticks"`
	Why     string    `json:"why"`
	Restart bool      `json:"newDaemon"`
}

func cronPlan(r *rand.Rand, files []*cronFile, budget int) []cronWindow {
	var ws []cronWindow
	base := time.Date(2026+r.Intn(10), time.Month(1+r.Intn(12)), 1+r.Intn(28), r.Intn(24), r.Intn(60), 0, 0, time.UTC)
	add := func(t time.Time, n int, why string) {
		ws = append(ws, cronWindow{Start: t.Truncate(time.Minute), Ticks: n, Why: why, Restart: true})
	}
	// a whole day (or more) of consecutive minutes
	add(base, budget/3, "consecutive minutes")
	// windows aimed at the sparse expressions of this set
	for _, f := range files {
		for _, es := range [][]*cronExpr{f.Spec.start, f.Spec.stop, f.Spec.restart} {
			for _, e := range es {
				if t, ok := e.nextMatch(base.AddDate(0, 0, r.Intn(400)), 4*366); ok {
					add(t.Add(-time.Duration(3+r.Intn(20))*time.Minute), 30+r.Intn(40), "around a match of "+e.src)
				}
			}
		}
	}
	// calendar corners
	y := 2026 + r.Intn(10)
	leap := 2028
	if r.Intn(2) == 0 {
		leap = 2032
	}
	corners := []time.Time{
		time.Date(y, 12, 31, 23, 40, 0, 0, time.UTC),
		time.Date(leap, 2, 28, 23, 45, 0, 0, time.UTC),
		time.Date(leap, 2, 29, 23, 45, 0, 0, time.UTC),
		time.Date(y|1, 2, 28, 23, 45, 0, 0, time.UTC),
		time.Date(y, time.Month(1+r.Intn(12)), 30, 23, 45, 0, 0, time.UTC),
		time.Date(y, 4, 30, 23, 50, 0, 0, time.UTC),
		time.Date(y, 3, 1, 0, 0, 0, 0, time.UTC).Add(-15 * time.Minute),
	}
	for _, t := range corners {
		add(t, 40, "calendar corner")
	}
	// random minutes over the decade
	for i := 0; i < 6; i++ {
		add(time.Date(2026+r.Intn(11), time.Month(1+r.Intn(12)), 1+r.Intn(28), r.Intn(24), r.Intn(60), 0, 0, time.UTC), 20+r.Intn(30), "random minute")
	}
	sort.Slice(ws, func(i, j int) bool { return ws[i].Start.Before(ws[j].Start) })
	// windows must not go back in time (the fake's history is ordered)
	var out []cronWindow
	var end time.Time
	for i, w := range ws {
		if i > 0 && r.Intn(3) == 0 && w.Start.Sub(end) < 48*time.Hour {
			// the daemon is restarted within the minute of its predecessor's last tick
			w.Start = end.Add(-time.Minute)
			w.Why += " (daemon restart in the minute of the previous daemon's last tick)"
		} else if w.Start.Before(end) {
			// daemon restarted inside the previous window's last minute or later
			w.Start = end.Add(-time.Minute)
			w.Why += " (daemon restart in the minute of the previous daemon's last tick)"
		}
		out = append(out, w)
		end = w.Start.Add(time.Duration(w.Ticks) * time.Minute)
	}
	return out
}

// ---- the body ------------------------------------------------------------------

func c09Set(c *core.Ctx, idx int, watcher bool) {
	r := c.Rand("set", idx)
	root, err := os.MkdirTemp(c.Scratch, "c09-")
	if err != nil {
		c.Inconclusive("mkdtemp: " + err.Error())
		return
	}
	defer os.RemoveAll(root)
	dir := filepath.Join(root, "dags")
	_ = os.MkdirAll(dir, 0755)
	h := &cronHarness{dir: dir, fake: newCronFake(), files: map[string]*cronFile{}, lg: logger.NewLogger(logger.NewLoggerArgs{Quiet: true})}
	nf := 3 + r.Intn(8)
	var files []*cronFile
	for i := 0; i < nf; i++ {
		f := genCronFile(r, i)
		files = append(files, f)
		h.files[f.Name] = f
		if !watcher && r.Intn(6) == 0 {
			// a DAG file that is a symbolic link to a file kept elsewhere,
			// present when the daemon starts
			tdir := filepath.Join(root, "targets")
			_ = os.MkdirAll(tdir, 0755)
			_ = os.WriteFile(filepath.Join(tdir, f.Name), []byte(f.Text), 0644)
			if err := os.Symlink(filepath.Join(tdir, f.Name), filepath.Join(dir, f.Name)); err != nil {
				c.Inconclusive("symlink: " + err.Error())
				return
			}
			c.Count("symlinked_dag_files", 1)
		} else {
			_ = os.WriteFile(filepath.Join(dir, f.Name), []byte(f.Text), 0644)
		}
		if f.Suspended {
			h.fake.suspended[strings.TrimSuffix(f.Name, filepath.Ext(f.Name))] = true
		}
		c.SetAdd("file_kinds", f.Spec.Kind)
		for _, cl := range f.classes {
			c.SetAdd("expression_classes", cl)
		}
	}
	h.fake.durOf = func(base string) int {
		if f := h.files[base]; f != nil {
			return f.Dur
		}
		return 0
	}
	desc := map[string]any{"set": idx, "files": files, "watcher": watcher}
	c.Begin(idx, desc)
	defer c.End(idx)
	budget := c.Pick(2400, 30000)
	if watcher {
		budget = 300
	}
	plan := cronPlan(r, files, budget)
	if idx%7 == 0 {
		c.Sample(map[string]any{"set": idx, "files": files, "windows": plan})
	}
	seen := map[string]bool{}
	violate := func(v cronVerdict, m time.Time, w cronWindow) {
		if seen[v.key+v.file] {
			return
		}
		seen[v.key+v.file] = true
		c.Violate(idx, v.key, v.what, map[string]any{"set": idx, "file": h.files[v.file], "minute": m.Format(time.RFC3339), "window": w})
	}
	defer h.stopDaemon()
	ticks := 0
	var wall time.Time
	for wi, w := range plan {
		if err := h.newDaemon(watcher); err != nil {
			c.Violate(idx, "daemon-crash|init", "creating the daemon over this DAGs directory crashed: "+err.Error(), desc)
			return
		}
		c.Count("daemon_starts", 1)
		// previous-run histories at daemon start
		if wi == 0 || r.Intn(3) == 0 {
			for _, f := range files {
				if !f.Spec.Loadable {
					continue
				}
				switch r.Intn(6) {
				case 0: // a manual run started earlier in the first tick's minute
					h.fake.mu.Lock()
					h.fake.runs[f.Name] = append(h.fake.runs[f.Name], &cronRun{startedAt: w.Start.Add(time.Duration(r.Intn(2)*7) * time.Second), endTick: h.fake.tickNo + 1, status: dagsched.StatusRunning})
					h.fake.mu.Unlock()
					c.Count("prior_same_minute", 1)
				case 1: // still running for a while
					h.fake.mu.Lock()
					if !h.fake.isRunning(f.Name) {
						h.fake.runs[f.Name] = append(h.fake.runs[f.Name], &cronRun{startedAt: w.Start.Add(-3 * time.Hour), endTick: h.fake.tickNo + 1 + 1 + r.Intn(12), status: dagsched.StatusRunning})
					}
					h.fake.mu.Unlock()
					c.Count("prior_running", 1)
				case 2: // older, finished
					h.fake.mu.Lock()
					if !h.fake.isRunning(f.Name) {
						h.fake.runs[f.Name] = append(h.fake.runs[f.Name], &cronRun{startedAt: w.Start.Add(-time.Duration(1+r.Intn(3000)) * time.Minute), endTick: 0, status: dagsched.StatusSuccess})
					}
					h.fake.mu.Unlock()
					c.Count("prior_older", 1)
				}
			}
		}
		m := w.Start
		if wall.Before(m) {
			wall = m
		}
		for i := 0; i < w.Ticks && ticks < budget; i++ {
			// lateness: the process stalls, then the overdue ticks are bunched
			if r.Intn(90) == 0 {
				wall = wall.Add(time.Duration(1+r.Intn(7)) * time.Minute)
				c.Count("stalls", 1)
			}
			if wall.Before(m) {
				wall = m
			}
			if wall.After(m) {
				c.Count("late_ticks", 1)
			}
			pre := h.snapshot()
			calls, ok := h.tick(m, wall.Add(time.Duration(r.Intn(3)*r.Intn(2))*time.Second))
			if !ok && h.tickHung {
				violate(cronVerdict{"daemon-stuck", fmt.Sprintf("the tick for %s did not return within 30 s: the daemon no longer schedules anything (files: %d, watcher=%v)", m.Format(time.RFC3339), len(files), watcher), ""}, m, w)
				return
			}
			if !ok {
				c.Inconclusive(fmt.Sprintf("set %d: tick %s did not become quiescent within 60 s", idx, m))
				return
			}
			ticks++
			c.Eval(1)
			c.Count("ticks", 1)
			for _, cl := range calls {
				c.Count("calls_"+cl.Kind, 1)
			}
			for _, v := range h.judge(m, pre, calls, c) {
				violate(v, m, w)
			}
			if watcher && i > 0 && i%25 == 0 {
				c09Mutate(c, r, h, &files, i)
			}
			if watcher {
				time.Sleep(2 * time.Millisecond)
			}
			m = h.sched.VerifNextTick(m)
		}
		if i := strings.Index(w.Why, " of "); i > 0 {
			c.SetAdd("window_kinds", w.Why[:i])
		} else {
			c.SetAdd("window_kinds", w.Why)
		}
		c.Sig(idx, wi, w.Start.Unix())
		if watcher {
			// every pending change must get the chance to show: keep ticking until each is
			// reflected; judge() raises watcher-stale when, more than 10 s after the change,
			// a tick shows behaviour that only the previous content explains
			for _, f := range files {
				if f.prev == nil || !cronDiffers(f) {
					f.prev = nil
					continue
				}
				for n := 0; f.prev != nil && n < 700 && len(seen) == 0; n++ {
					time.Sleep(20 * time.Millisecond)
					pre := h.snapshot()
					calls, ok := h.tick(m, m)
					if !ok && h.tickHung {
						violate(cronVerdict{"daemon-stuck", fmt.Sprintf("the tick for %s did not return within 30 s after a change of the DAGs directory: the daemon no longer schedules anything", m.Format(time.RFC3339)), ""}, m, w)
						return
					}
					if !ok {
						c.Inconclusive("tick did not become quiescent")
						return
					}
					for _, v := range h.judge(m, pre, calls, c) {
						violate(v, m, w)
					}
					m = h.sched.VerifNextTick(m)
				}
				if f.prev != nil {
					c.Count("watcher_changes_without_a_distinguishing_tick", 1)
				}
				f.prev = nil
			}
		}
	}
	if len(h.fake.other) > 0 {
		c.Count("unexpected_client_calls", int64(len(h.fake.other)))
	}
}

// cronDiffers reports whether old and new content differ on every minute
// (only then can "never reflected" be told from "no distinguishing minute yet").
func cronDiffers(f *cronFile) bool {
	every := func(sp *cronSpec) bool {
		for _, e := range sp.Start {
			if e == "* * * * *" {
				return sp.Loadable
			}
		}
		return false
	}
	return every(f.Spec) != every(f.prev) && !f.Suspended
}

// c09Mutate changes the DAGs directory while the watcher runs.
func c09Mutate(c *core.Ctx, r *rand.Rand, h *cronHarness, files *[]*cronFile, i int) {
	every := func() *cronSpec {
		return (&cronSpec{Kind: "single", Start: []string{"* * * * *"}, Loadable: true}).compile()
	}
	none := func(kind string) *cronSpec { return (&cronSpec{Kind: kind, Loadable: false}).compile() }
	switch r.Intn(5) {
	case 0: // a new DAG appears
		f := &cronFile{Name: fmt.Sprintf("new%03d.yaml", len(*files)), Text: "schedule: \"* * * * *\"\n" + cronSteps, Spec: every(), prev: none("not-there-yet"), prevSince: time.Now()}
		h.files[f.Name] = f
		*files = append(*files, f)
		atomicWrite(filepath.Join(h.dir, f.Name), f.Text)
		c.Count("watcher_file_added", 1)
	case 1: // a broken file appears next to the others
		name := fmt.Sprintf("bad%03d.yaml", len(*files))
		f := &cronFile{Name: name, Text: pickS(r, "schedule:\n  foo: \"* * * * *\"\n"+cronSteps, ": : [", "schedule: \"61 * * * *\"\n"+cronSteps, "steps: [~]\nschedule: \"* * * * *\"\n"), Spec: none("invalid-added")}
		f.Spec.Kind = "loader-hostile"
		h.files[name] = f
		*files = append(*files, f)
		atomicWrite(filepath.Join(h.dir, name), f.Text)
		c.Count("watcher_bad_file_added", 1)
	case 2: // an existing DAG is edited: every minute <-> never
		for _, f := range *files {
			if f.Spec.Loadable && !f.Suspended && f.prev == nil && strings.HasSuffix(f.Name, ".yaml") {
				old := f.Spec
				if len(old.Start) == 1 && old.Start[0] == "* * * * *" && len(old.Stop)+len(old.Restart) == 0 {
					f.Spec = (&cronSpec{Kind: "no-schedule", Loadable: true}).compile()
					f.Text = cronSteps
				} else {
					f.Spec = every()
					f.Text = "schedule: \"* * * * *\"\n" + cronSteps
				}
				f.prev, f.prevSince = old, time.Now()
				atomicWrite(filepath.Join(h.dir, f.Name), f.Text)
				c.Count("watcher_file_edited", 1)
				break
			}
		}
	case 3: // a DAG is removed
		for _, f := range *files {
			if f.Spec.Loadable && f.prev == nil && strings.HasSuffix(f.Name, ".yaml") {
				old := f.Spec
				f.Spec = none("removed")
				f.prev, f.prevSince = old, time.Now()
				_ = os.Remove(filepath.Join(h.dir, f.Name))
				c.Count("watcher_file_removed", 1)
				break
			}
		}
	case 4: // an edit that makes a DAG unloadable keeps... nothing is demanded of it; the others go on
		for _, f := range *files {
			if f.Spec.Loadable && f.prev == nil && strings.HasSuffix(f.Name, ".yaml") {
				old := f.Spec
				// the daemon may keep the last good definition or drop it: either spec is acceptable from now on
				f.Spec = old
				f.Text = ": : ["
				atomicWrite(filepath.Join(h.dir, f.Name), f.Text)
				atomicWrite(filepath.Join(h.dir, f.Name), oldText(old))
				c.Count("watcher_file_broken_then_restored", 1)
				break
			}
		}
	}
}

// atomicWrite replaces a file in one step (temporary name without a DAG
// extension, then rename): a plain rewrite truncates first, and the empty file
// in between is a real, schedule-less definition the watcher may load.
func atomicWrite(path, text string) {
	tmp := path + ".tmp-verif"
	_ = os.WriteFile(tmp, []byte(text), 0644)
	_ = os.Rename(tmp, path)
}

func oldText(sp *cronSpec) string {
	var b strings.Builder
	if len(sp.Start)+len(sp.Stop)+len(sp.Restart) > 0 {
		b.WriteString("schedule:\n")
		if len(sp.Start) > 0 {
			b.WriteString("  start: " + yamlList(sp.Start) + "\n")
		}
		if len(sp.Stop) > 0 {
			b.WriteString("  stop: " + yamlList(sp.Stop) + "\n")
		}
		if len(sp.Restart) > 0 {
			b.WriteString("  restart: " + yamlList(sp.Restart) + "\n")
		}
	}
	b.WriteString(cronSteps)
	return b.String()
}

func c09Body(c *core.Ctx) {
	if c.Mode == "real" {
		c09RealBody(c)
		return
	}
	if c.Mode == "loop" {
		c09LoopBody(c)
		return
	}
	watcher := c.Mode == "watcher"
	n := c.Pick(128, 960)
	if watcher {
		n = c.Pick(16, 96)
	}
	if c.Race {
		n = c.Pick(16, 64)
	}
	for idx := 0; idx < n; idx++ {
		if !c.Mine(idx) {
			continue
		}
		c09Set(c, idx, watcher)
	}
}

func init() {
	core.RaceGate["C09"] = []string{"(*entryReaderImpl).Read", "(*entryReaderImpl).initDags", "(*entryReaderImpl).watchDags"}
	core.Register(&core.Prop{ID: "C09", Level: "exploration", Body: c09Body, CrashKey: crashKeyGeneric, MinDistinct: 50,
		Passes: func(tier string) []core.Pass {
			return []core.Pass{
				{Name: "main", Mode: "ticks", Shards: 16, Timeout: 40 * time.Minute},
				{Name: "watcher", Mode: "watcher", Shards: 8, Timeout: 40 * time.Minute},
				{Name: "race", Mode: "watcher", Race: true, Shards: 8, Timeout: 40 * time.Minute},
				{Name: "real", Mode: "real", Shards: 10, Timeout: 40 * time.Minute},
				{Name: "loop", Mode: "loop", Shards: 8, Timeout: 40 * time.Minute},
			}
		},
		Rule:        "Real scheduler.New(cfg, logger, fake) over a generated DAGs directory (3-10 files; 128 (960) sets: single / list / overlapping list / start-stop-restart map schedules, suspended, no schedule, invalid YAML, invalid cron, loader-hostile documents, non-DAG extensions, one file in six a symbolic link to a file outside the directory; expressions from the 5-field grammar: lists, ranges, steps, a/n, month and weekday names, day-of-month OR day-of-week, never-coming dates, leap day, month and year ends). Each set is ticked minute by minute (VerifTick) through windows: a long run of consecutive minutes, windows aimed at a match of every sparse expression of the set, calendar corners (31 Dec, 28/29 Feb of leap and non-leap years, 30/31 of a month), random minutes 2026-2036; every window is a new daemon (restart), some restart inside the previous daemon's last minute; stalls make ticks late and bunched (the fake's wall clock runs ahead of the tick minute). A recording fake of client.Client is the ground truth for running / last start (Start becomes visible only when the tick is otherwise quiescent, like a process spawn) and emulates runs of 0-30 ticks, stops and restarts; prior histories at daemon start: none / older / still running / started in the first tick's minute. A tick is complete when every goroutine created by the scheduler package for it is gone or parked in the fake's Start (goroutine dump, no sleeps). Oracle per (file, tick minute m), with an independent cron evaluator (own parser, direct calendar evaluation, no next-time search): exactly one Start iff some start expression matches m and the DAG is not suspended, not running, and its latest run did not start in or after m; otherwise none; Stop iff a stop expression matches and the DAG runs; Restart iff a restart expression matches (stop/restart of suspended DAGs not judged); no call ever for unloadable / non-DAG files. Watcher pass: files are added, edited (every minute <-> never), removed, broken while the directory watcher runs; until 10 s after a change either content is accepted, afterwards only the new one. Real-client pass: the daemon with the real client, jsondb (latestStatusToday on) and status socket; run states made by the real blackdagger binary (never run, running, running since yesterday = its history file back-dated, finished in this minute, killed) x with/without a stop schedule; recorder executable: no start while running, stop delivered to the running run, no second start in the minute of the latest start, one start at the next minute. Loop pass: 48 (600) windows of 5-12 minutes through the daemon's own timer loop (Scheduler.Start) on the fixed-time clock, which a recording client moves forward from inside each tick so that the tick ends 0 s - 200 s after the next minute boundary (always on time / one slow tick / random); one DAG per minute of the window makes each Start name the minute ticked: every minute is ticked exactly once, late ticks are made up for. Non-trivial = each window of each set (signature set,window,start); evaluations = ticks.",
		Assumptions: []string{"the fake client is the world: a Start/Stop/Restart takes effect when the tick has otherwise settled", "time zone UTC; CRON_TZ= prefixes, descriptors and day-of-week 7 are not generated", "*/n in a day field is only generated when the other day field is *, where all cron dialects agree"}})
}
