package props

import (
	"encoding/base64"
	"fmt"
	"net/http"
	"net/http/httptest"
	"os"
	"strings"
	"sync"
	"time"

	"github.com/ErdemOzgen/blackdagger/internal/frontend/middleware"
	"github.com/ErdemOzgen/blackdagger/verifh/apih"
	"github.com/ErdemOzgen/blackdagger/verifh/core"
)

type c17Cfg struct {
	Name     string `json:"name"`
	User     string `json:"user,omitempty"`
	Pass     string `json:"pass,omitempty"`
	Token    string `json:"token,omitempty"`
	HasBasic bool   `json:"basic"`
	HasToken bool   `json:"hasToken"`
	BasePath string `json:"basePath,omitempty"`
}

func b64(s string) string { return base64.StdEncoding.EncodeToString([]byte(s)) }

// c17Headers builds the Authorization header grammar for a configuration.
// An empty string in the result with present=false means "no header".
func c17Headers(cfg c17Cfg, other c17Cfg, big bool) []string {
	u, p, t := cfg.User, cfg.Pass, cfg.Token
	if !cfg.HasBasic {
		u, p = other.User, other.Pass
	}
	if !cfg.HasToken {
		t = other.Token
	}
	good := b64(u + ":" + p)
	hs := []string{
		"\x00none",
		"", "Basic", "Bearer", "Basic ", "Bearer ", " ", "Basic  ", "Bearer  ",
		"Basic " + good, "Bearer " + t, // standard forms
		"basic " + good, "BASIC " + good, "Basic  " + good, " Basic " + good, "Basic " + good + " ", "Basic " + good + " x", "Basic\t" + good,
		"bearer " + t, "BEARER " + t, "Bearer  " + t, " Bearer " + t, "Bearer " + t + " ", "Bearer " + t + " x", "Bearer\t" + t,
		"Basic " + t, "Bearer " + good, "Token " + t, "Foo " + t, "Foo " + good, t, good,
		// wrong secrets
		"Basic " + b64(u+":"), "Basic " + b64(":"+p), "Basic " + b64(u), "Basic " + b64(":"), "Basic " + b64(u+":"+p+"x"), "Basic " + b64(u+":x"+p),
		"Basic " + b64(u+"x:"+p), "Basic " + b64(strings.ToUpper(u)+":"+p), "Basic " + b64(u+":"+strings.ToUpper(p)+"!"), "Basic " + b64(p+":"+u),
		"Basic " + b64(u + ":" + p)[:len(good)-2], "Basic " + good + "AA", "Basic !!!notbase64!!!", "Basic " + b64(u+" :"+p), "Basic " + b64(u+":"+p+":"+p),
		"Basic " + base64.StdEncoding.EncodeToString([]byte{0xff, 0xfe, ':', 0xfd}),
		"Bearer " + t + "x", "Bearer x" + t, "Bearer wrong", "Bearer " + strings.ToUpper(t) + "_", "Bearer " + b64(t), "Bearer null", "Bearer undefined", "Bearer ,",
		"Bearer " + u + ":" + p, "Bearer " + p, "Basic " + b64("Bearer:"+t), "Negotiate abc", "Digest username=\"" + u + "\"",
	}
	if len(t) > 1 {
		hs = append(hs, "Bearer "+t[:len(t)-1], "Bearer "+t[1:])
	}
	if len(p) > 1 {
		hs = append(hs, "Basic "+b64(u+":"+p[:len(p)-1]), "Basic "+b64(u+":"+p[1:]))
	}
	if big {
		for _, sep := range []string{"  ", "\t", " \t", ","} {
			hs = append(hs, "Basic"+sep+good, "Bearer"+sep+t, "Bearer "+t+sep+"Basic "+good)
		}
		for _, enc := range []*base64.Encoding{base64.RawStdEncoding, base64.URLEncoding, base64.RawURLEncoding} {
			hs = append(hs, "Basic "+enc.EncodeToString([]byte(u+":"+p)))
		}
		hs = append(hs, "Basic "+strings.Repeat("A", 5000), "Bearer "+strings.Repeat("z", 5000), strings.Repeat(" ", 300))
	}
	return hs
}

// presents reports whether the header carries a configured secret in any form.
func c17Presents(cfg c17Cfg, h string, present bool) (token, basic bool) {
	if !present {
		return false, false
	}
	fields := strings.FieldsFunc(h, func(r rune) bool { return r == ' ' || r == '\t' || r == ',' })
	for _, f := range fields {
		if cfg.HasToken && cfg.Token != "" && f == cfg.Token {
			token = true
		}
		if cfg.HasBasic {
			for _, enc := range []*base64.Encoding{base64.StdEncoding, base64.RawStdEncoding, base64.URLEncoding, base64.RawURLEncoding} {
				if b, err := enc.DecodeString(f); err == nil && string(b) == cfg.User+":"+cfg.Pass {
					basic = true
				}
			}
		}
	}
	return
}

func c17Body(c *core.Ctx) {
	if c.Mode == "server" {
		c17ServerBody(c)
		return
	}
	if c.Mode == "concurrent" {
		c17Concurrent(c)
		return
	}
	big := !c.Quick()
	secrets := []c17Cfg{
		{User: "admin", Pass: "s3cret", Token: "tok-ABC.123_~"},
		{User: "a", Pass: "a", Token: "a"},
		{User: "user", Pass: "pass:with:colons", Token: "user"},
		{User: "admin", Pass: "admin1", Token: "admin"},
		{User: "Ünï", Pass: "pä ss", Token: "abc+/=="},
		{User: "x", Pass: "", Token: ""},
		{User: "", Pass: "p", Token: "Bearer"},
	}
	if big {
		r := c.Rand("secrets", 0)
		alpha := "abcdefghijklmnopqrstuvwxyzABCDEFGHIJKLMNOPQRSTUVWXYZ0123456789-._~+/"
		for i := 0; i < 24; i++ {
			mk := func(n int) string {
				b := make([]byte, n)
				for j := range b {
					b[j] = alpha[r.Intn(len(alpha))]
				}
				return string(b)
			}
			secrets = append(secrets, c17Cfg{User: mk(1 + r.Intn(8)), Pass: mk(1 + r.Intn(12)), Token: mk(1 + r.Intn(24))})
		}
	}
	kinds := []struct {
		name         string
		basic, token bool
	}{{"none", false, false}, {"basic", true, false}, {"token", false, true}, {"both", true, true}}
	methods := []string{"GET", "POST", "PUT", "DELETE", "PATCH", "HEAD", "OPTIONS"}
	paths := []string{"/api/v1/dags", "/api/v1/dags/x", "/api/v1/dags/x?tab=spec", "/api/v1/search?q=a", "/api/v1/tags", "/api", "/api/", "/api/v1/../v1/dags",
		"/api/v1/docs/../dags", "/api/v1/docs/x/../../dags/x", "/api/v1/swagger.json/../dags", "/api/v1/./dags", "/api/v1//dags",
		"/apix", "//api/v1/dags", "/", "/dags", "/assets/x.js", "/API/v1/dags", "/api/v2/unknown"}
	idx := 0
	for si, sec := range secrets {
		for _, k := range kinds {
			for _, bp := range []string{"", "/bd"} {
				if !c.Mine(idx) {
					idx++
					continue
				}
				cfg := sec
				cfg.Name, cfg.HasBasic, cfg.HasToken, cfg.BasePath = k.name, k.basic, k.token, bp
				c.Begin(idx, cfg)
				c17Grid(c, idx, cfg, secrets[(si+1)%len(secrets)], methods, paths, big)
				c.End(idx)
				idx++
			}
		}
	}
	// assembled API over a real store: rejected requests change nothing
	idx = 1 << 20
	for si, sec := range secrets[:3] {
		for _, k := range kinds[1:] {
			if c.Mine(idx) {
				cfg := sec
				cfg.Name, cfg.HasBasic, cfg.HasToken = k.name, k.basic, k.token
				c.Begin(idx, cfg)
				c17Assembled(c, idx, cfg, secrets[(si+1)%len(secrets)])
				c.End(idx)
			}
			idx++
		}
	}
}

// c17Concurrent: the same chain under concurrent traffic. Client goroutines send
// requests with valid and with secret-less credentials at the same time; each
// request carries its own id so that the sentinel can attribute what reached it.
func c17Concurrent(c *core.Ctx) {
	kinds := []struct {
		name         string
		basic, token bool
	}{{"basic", true, false}, {"token", false, true}, {"both", true, true}}
	rounds := c.Pick(40000, 600000)
	if c.Race {
		rounds = c.Pick(8000, 100000)
	}
	for idx, k := range kinds {
		if !c.Mine(idx) {
			continue
		}
		cfg := c17Cfg{Name: k.name, User: "admin", Pass: "s3cret", Token: "tok-ABC.123_~", HasBasic: k.basic, HasToken: k.token}
		c.Begin(idx, cfg)
		var reached sync.Map // request id -> true
		sentinel := http.HandlerFunc(func(w http.ResponseWriter, r *http.Request) {
			reached.Store(r.Header.Get("X-Verif-Id"), true)
			w.WriteHeader(299)
		})
		c17Setup(cfg, http.HandlerFunc(func(w http.ResponseWriter, r *http.Request) { w.WriteHeader(298) }))
		h := middleware.SetupGlobalMiddleware(sentinel)
		var valid []string
		if k.basic {
			valid = append(valid, "Basic "+b64(cfg.User+":"+cfg.Pass))
		}
		if k.token {
			valid = append(valid, "Bearer "+cfg.Token)
		}
		invalid := []string{"\x00none", "Basic " + b64(cfg.User+":wrong"), "Basic " + b64("nobody:"), "Basic " + b64(cfg.User+":"), "Bearer wrong", "Bearer ", "Basic " + b64("x:"+cfg.Pass), "Bearer " + cfg.Pass}
		var mu sync.Mutex
		var bad []string
		var wg sync.WaitGroup
		const workers = 12
		for w := 0; w < workers; w++ {
			wg.Add(1)
			go func(w int) {
				defer wg.Done()
				for i := 0; i < rounds/workers; i++ {
					id := fmt.Sprintf("%d-%d", w, i)
					good := w%2 == 0
					hv := invalid[(i+w)%len(invalid)]
					if good {
						hv = valid[i%len(valid)]
					}
					req := httptest.NewRequest([]string{"GET", "POST", "DELETE"}[i%3], "http://h/api/v1/dags", nil)
					req.Header.Set("X-Verif-Id", id)
					if hv != "\x00none" {
						req.Header.Set("Authorization", hv)
					}
					rec := httptest.NewRecorder()
					h.ServeHTTP(rec, req)
					_, got := reached.Load(id)
					switch {
					case good && (!got || rec.Code == http.StatusUnauthorized):
						mu.Lock()
						bad = append(bad, fmt.Sprintf("rejected-valid-concurrent:%s|request %s with valid credentials %q got status %d under concurrent traffic", cfg.Name, id, hv, rec.Code))
						mu.Unlock()
					case !good && (got || rec.Code != http.StatusUnauthorized):
						mu.Lock()
						bad = append(bad, fmt.Sprintf("passed-without-secret-concurrent:%s|request %s with Authorization %q reached the API handler (status %d) while valid requests were in flight", cfg.Name, id, hv, rec.Code))
						mu.Unlock()
					}
				}
			}(w)
		}
		wg.Wait()
		c.Eval(int64(rounds / workers * workers))
		c.Count("obligations", int64(rounds/workers*workers))
		c.Count("concurrent_requests", int64(rounds/workers*workers))
		seen := map[string]bool{}
		for _, b := range bad {
			key, what, _ := strings.Cut(b, "|")
			if !seen[key] {
				seen[key] = true
				c.Violate(idx, key, what, map[string]any{"config": cfg, "workers": workers})
			}
		}
		c.DistinctAdd(int64(len(valid)+len(invalid)) * 3)
		c.Sample(map[string]any{"concurrent": cfg, "workers": workers, "requests": rounds})
		c.End(idx)
	}
}

func c17Setup(cfg c17Cfg, def http.Handler) {
	o := &middleware.Options{Handler: def, Logger: apih.Quiet, BasePath: cfg.BasePath}
	if cfg.HasBasic {
		o.AuthBasic = &middleware.AuthBasic{Username: cfg.User, Password: cfg.Pass}
	}
	if cfg.HasToken {
		o.AuthToken = &middleware.AuthToken{Token: cfg.Token}
	}
	middleware.Setup(o)
}

func c17Grid(c *core.Ctx, idx int, cfg, other c17Cfg, methods, paths []string, big bool) {
	reached, defReached := 0, 0
	sentinel := http.HandlerFunc(func(w http.ResponseWriter, r *http.Request) { reached++; w.WriteHeader(299) })
	def := http.HandlerFunc(func(w http.ResponseWriter, r *http.Request) { defReached++; w.WriteHeader(298) })
	c17Setup(cfg, def)
	h := middleware.SetupGlobalMiddleware(sentinel)
	hdrs := c17Headers(cfg, other, big)
	for _, m := range methods {
		for _, p0 := range paths {
			for _, withBase := range []bool{true, false} {
				p := p0
				if withBase {
					p = cfg.BasePath + p0
				} else if cfg.BasePath == "" {
					continue
				}
				for _, hv := range hdrs {
					present := hv != "\x00none"
					req := httptest.NewRequest(m, "http://h"+p, nil)
					if present {
						req.Header.Set("Authorization", hv)
					}
					urlPath := req.URL.Path
					isAPI := strings.HasPrefix(urlPath, cfg.BasePath) && strings.HasPrefix(strings.TrimPrefix(urlPath, cfg.BasePath), "/api")
					if cfg.BasePath != "" && urlPath == "/" {
						isAPI = false
					}
					reached, defReached = 0, 0
					rec := httptest.NewRecorder()
					h.ServeHTTP(rec, req)
					c.Eval(1)
					tok, bas := c17Presents(cfg, hv, present)
					stdBasic := cfg.HasBasic && hv == "Basic "+b64(cfg.User+":"+cfg.Pass) && !strings.Contains(cfg.User, ":")
					stdToken := cfg.HasToken && cfg.Token != "" && hv == "Bearer "+cfg.Token && !strings.ContainsAny(cfg.Token, " \t")
					desc := func() any {
						return map[string]any{"config": cfg, "method": m, "path": p, "authorization": hv, "header_present": present, "status": rec.Code, "reached_api_handler": reached}
					}
					cat := "either"
					switch {
					case !isAPI:
						cat = "non-api"
						c.Count("obligations", 1)
						if reached > 0 {
							c.Violate(idx, "nonapi-reached:"+cfg.Name, fmt.Sprintf("%s %s is not an API path but reached the API handler", m, p), desc())
						}
					case !cfg.HasBasic && !cfg.HasToken, stdBasic, stdToken:
						cat = "must-pass"
						c.Count("obligations", 1)
						if rec.Code == http.StatusUnauthorized || (reached != 1 && m != "OPTIONS") {
							c.Violate(idx, "rejected-valid:"+cfg.Name, fmt.Sprintf("%s %s with standard valid credentials (%q) got status %d, reached handler %d time(s)", m, p, hv, rec.Code, reached), desc())
						}
					case !tok && !bas:
						cat = "must-reject"
						c.Count("obligations", 1)
						if reached > 0 {
							c.Violate(idx, "passed-without-secret:"+cfg.Name, fmt.Sprintf("%s %s with Authorization %q (present=%v) reached the API handler without presenting a configured secret", m, p, hv, present), desc())
						} else if rec.Code != http.StatusUnauthorized {
							c.Violate(idx, "not-401:"+cfg.Name, fmt.Sprintf("%s %s with Authorization %q (present=%v) got status %d, expected 401", m, p, hv, present, rec.Code), desc())
						}
					default:
						c.Count("either_nonstandard_with_secret", 1)
						if reached > 0 {
							c.SetAdd("accepted_nonstandard_forms", cfg.Name+": "+sanitize(hv, cfg))
						}
					}
					c.Count("cat_"+cat, 1)
				}
			}
		}
	}
	c.DistinctAdd(int64(len(methods) * len(paths) * len(hdrs)))
	c.Sample(map[string]any{"config": cfg, "methods": methods, "paths": len(paths), "header_shapes": len(hdrs), "example_headers": hdrs[9:14]})
}

func sanitize(h string, cfg c17Cfg) string {
	if cfg.Token != "" {
		h = strings.ReplaceAll(h, cfg.Token, "<TOKEN>")
	}
	h = strings.ReplaceAll(h, b64(cfg.User+":"+cfg.Pass), "<B64(user:pass)>")
	if len(h) > 60 {
		h = h[:60]
	}
	return h
}

func c17Assembled(c *core.Ctx, idx int, cfg, other c17Cfg) {
	root, err := os.MkdirTemp(c.Scratch, "c17-")
	if err != nil {
		c.Inconclusive("mkdir: " + err.Error())
		return
	}
	defer os.RemoveAll(root)
	auth := apih.Auth{}
	if cfg.HasBasic {
		auth.Basic = &middleware.AuthBasic{Username: cfg.User, Password: cfg.Pass}
	}
	if cfg.HasToken {
		auth.Token = &middleware.AuthToken{Token: cfg.Token}
	}
	env, err := apih.New(root, "/bin/false", auth, false)
	if err != nil {
		c.Inconclusive("apih: " + err.Error())
		return
	}
	_ = os.WriteFile(env.DAGs+"/x.yaml", []byte("steps:\n  - name: a\n    command: \"true\"\n"), 0644)
	type rq struct{ m, p, body string }
	reqs := []rq{
		{"POST", "/api/v1/dags", `{"action":"new","value":"created_by_attacker"}`},
		{"DELETE", "/api/v1/dags/x", ""},
		{"POST", "/api/v1/dags/x", `{"action":"save","value":"steps:\n  - name: z\n    command: id\n"}`},
		{"POST", "/api/v1/dags/x", `{"action":"rename","value":"y"}`},
		{"POST", "/api/v1/dags/x", `{"action":"suspend","value":"true"}`},
		{"GET", "/api/v1/dags", ""},
		{"GET", "/api/v1/dags/x?tab=spec", ""},
		// the router matches on the cleaned path: whatever is exempted from auth must be decided on the same path
		{"GET", "/api/v1/docs/../dags", ""},
		{"DELETE", "/api/v1/docs/../dags/x", ""},
		{"GET", "/api/v1/docs/x/../../dags", ""},
		{"GET", "/api/v1/swagger.json/../dags", ""},
		{"POST", "/api/v1/./dags", `{"action":"new","value":"created_by_attacker_2"}`},
	}
	for _, hv := range c17Headers(cfg, other, false) {
		present := hv != "\x00none"
		tok, bas := c17Presents(cfg, hv, present)
		if tok || bas {
			continue
		}
		for _, q := range reqs {
			before := apih.Dump(env.DAGs, env.Data, env.Suspend)
			req := httptest.NewRequest(q.m, "http://h"+q.p, strings.NewReader(q.body))
			req.Header.Set("Content-Type", "application/json")
			if present {
				req.Header.Set("Authorization", hv)
			}
			rec := httptest.NewRecorder()
			env.Handler.ServeHTTP(rec, req)
			c.Eval(1)
			c.Count("obligations", 2)
			c.Count("assembled_rejected_requests", 1)
			after := apih.Dump(env.DAGs, env.Data, env.Suspend)
			desc := map[string]any{"config": cfg, "method": q.m, "path": q.p, "authorization": hv, "header_present": present, "status": rec.Code}
			if rec.Code != http.StatusUnauthorized {
				c.Violate(idx, "assembled-not-401:"+cfg.Name, fmt.Sprintf("assembled API: %s %s with Authorization %q got %d, expected 401; body %.120s", q.m, q.p, hv, rec.Code, rec.Body.String()), desc)
			}
			if d := apih.Diff(before, after); len(d) > 0 {
				c.Violate(idx, "assembled-effect:"+cfg.Name, fmt.Sprintf("assembled API: rejected %s %s changed the store: %v", q.m, q.p, d), desc)
			}
		}
	}
	// positive control: the standard form gets through and has its effect
	var good string
	if cfg.HasBasic {
		good = "Basic " + b64(cfg.User+":"+cfg.Pass)
	} else {
		good = "Bearer " + cfg.Token
	}
	req := httptest.NewRequest("GET", "http://h/api/v1/dags", nil)
	req.Header.Set("Authorization", good)
	rec := httptest.NewRecorder()
	env.Handler.ServeHTTP(rec, req)
	c.Count("obligations", 1)
	if rec.Code != 200 {
		c.Violate(idx, "assembled-rejected-valid:"+cfg.Name, fmt.Sprintf("assembled API: GET /api/v1/dags with valid credentials got %d", rec.Code), map[string]any{"config": cfg})
	}
	c.Sig("assembled", cfg.Name, cfg.User, cfg.Token)
}

func init() {
	core.Register(&core.Prop{ID: "C17", Level: "exploration", Body: c17Body, CrashKey: crashKeyGeneric, MinDistinct: 1000,
		Passes: func(tier string) []core.Pass {
			return []core.Pass{{Name: "main", Mode: "controlled", Shards: 16, Timeout: 30 * time.Minute},
				{Name: "concurrent", Mode: "concurrent", Shards: 3, Timeout: 30 * time.Minute},
				{Name: "concurrent-race", Mode: "concurrent", Race: true, Shards: 3, Timeout: 30 * time.Minute},
				{Name: "server", Mode: "server", Shards: 10, Timeout: 30 * time.Minute}}
		},
		Exhaustive: func(tier string) bool { return true },
		Rule:       "Complete grid (exhaustive over the grid, not over all strings): {none, basic, token, both} x 7 secret triples (31 in thorough) incl. empty, one-character, token==user, colon-bearing and non-ASCII secrets x {no base path, /bd} x 7 methods x 20 path shapes (with and without the base path; incl. dot segments behind /docs and /swagger.json) x ~75 Authorization shapes (absent, empty, scheme only, standard forms, case/spacing/tab variants, trailing junk, secret under the other scheme, bare secret, truncated/extended/wrong-case/swapped/partially-correct credentials, bad base64, other encodings, other schemes), through middleware.Setup + SetupGlobalMiddleware(sentinel) with httptest. Each request is classified by computed predicates, not by construction: must-pass (no auth, or exactly `Basic base64(user:password)` / `Bearer token`), must-reject (no whitespace/comma-separated field equals the token and none decodes, in any base64 alphabet, to user:password) => 401 and sentinel not reached, either (secret present in non-standard form; accepted forms are listed in evidence), non-API path => sentinel not reached. Second harness: the assembled go-swagger API over a real store; every must-reject header x 7 mutating/reading requests must be 401 with the byte-level dump of the DAG/history/flag directories unchanged; positive control with valid credentials. Concurrent passes (plain and under the race detector): 12 client goroutines send 40000 (600000) requests per configuration at the same time, half with valid and half with secret-less credentials, each tagged with its own id; every response is judged as in the grid (a secret-less request that reaches the handler while valid ones are in flight is a violation). Server pass: 40 (400) starts of the real `blackdagger server` on a config.yaml in which basic / token / both auth is switched on and which is intact (positive control: 401 without, 200 with credentials) or damaged (cut at a PRNG position as by a crash in mid-save, garbage appended, tab indentation, binary junk, unclosed quote): the server either does not start or answers requests without / with wrong credentials with 401; a damaged file that is still a valid configuration without the auth keys is not judged. distinct_nontrivial = number of distinct (config, method, path, header) grid points, counted by enumeration.",
		Assumptions: []string{"the outcome for a correct secret presented in a non-standard form is not judged (the statement says 'only if')",
			"OPTIONS is answered by the CORS layer: for must-pass only 'not 401' is demanded"}})
}
