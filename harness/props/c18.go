package props

// C18 — DAG definitions are created, saved, renamed and deleted safely.
// (1) reference-model monitor over client / web-API operations interleaved
// with recorded runs, full state comparison after every operation;
// (2) crash monitor: a saving worker process is killed by the ptrace
// supervisor before every system call of the save (and every write torn).

import (
	"bytes"
	"crypto/md5"
	"encoding/hex"
	"encoding/json"
	"fmt"
	"math/rand"
	"net/http/httptest"
	"net/url"
	"os"
	"path/filepath"
	"sort"
	"strings"
	"time"

	"github.com/ErdemOzgen/blackdagger/internal/client"
	"github.com/ErdemOzgen/blackdagger/internal/dag"
	dsclient "github.com/ErdemOzgen/blackdagger/internal/persistence/client"
	"github.com/ErdemOzgen/blackdagger/internal/persistence/jsondb"
	"github.com/ErdemOzgen/blackdagger/verifh/apih"
	"github.com/ErdemOzgen/blackdagger/verifh/core"
	"github.com/ErdemOzgen/blackdagger/verifh/gate"
	"gopkg.in/yaml.v2"
)

type c18Run struct {
	Req    string
	LastID int
}

type c18Dag struct {
	Bytes []byte
	Runs  []*c18Run
}

type c18Env struct {
	c      *core.Ctx
	idx    int
	env    *apih.Env
	model  map[string]*c18Dag
	gone   map[string]bool // names that existed once and must have no history now
	ops    []string
	nextID int
	nreq   int
	seen   map[string]bool
}

func (e *c18Env) loc(name string) string { return filepath.Join(e.env.DAGs, name+".yaml") }

func (e *c18Env) violate(key, what string) {
	if e.seen[key] {
		return
	}
	e.seen[key] = true
	ops := e.ops
	if len(ops) > 40 {
		ops = ops[len(ops)-40:]
	}
	e.c.Violate(e.idx, key, what, map[string]any{"sequence": e.idx, "last_ops": ops})
}

func histDir(dataDir, location string) string {
	h := md5.Sum([]byte(location))
	base := strings.TrimSuffix(filepath.Base(location), filepath.Ext(location))
	return filepath.Join(dataDir, base+"-"+hex.EncodeToString(h[:]))
}

// checkAll compares everything observable with the model.
func (e *c18Env) checkAll(after string) {
	c := e.c
	// definitions on disk
	ents, _ := os.ReadDir(e.env.DAGs)
	onDisk := map[string]bool{}
	for _, en := range ents {
		if strings.HasSuffix(en.Name(), ".yaml") {
			onDisk[strings.TrimSuffix(en.Name(), ".yaml")] = true
		}
	}
	for name, d := range e.model {
		c.Count("obligations", 3)
		b, err := os.ReadFile(e.loc(name))
		if err != nil {
			e.violate("definition-lost|"+after, fmt.Sprintf("after %s the definition of %q is gone (%v)", after, name, err))
			continue
		}
		if !bytes.Equal(b, d.Bytes) {
			e.violate("definition-changed|"+after, fmt.Sprintf("after %s the definition of %q holds %d bytes %q, expected %d bytes %q", after, name, len(b), clip(string(b), 80), len(d.Bytes), clip(string(d.Bytes), 80)))
		}
		if s, err := e.env.Client.GetDAGSpec(name); err != nil || s != string(d.Bytes) {
			e.violate("spec-query|"+after, fmt.Sprintf("after %s GetDAGSpec(%q) does not return the stored definition (err=%v)", after, name, err))
		}
		delete(onDisk, name)
		// history
		got := e.env.Stores.HistoryStore().ReadStatusRecent(e.loc(name), len(d.Runs)+3)
		want := map[string]int{}
		for _, r := range d.Runs {
			want[r.Req] = r.LastID
		}
		gotm := map[string]int{}
		for _, sf := range got {
			gotm[sf.Status.RequestID] = writeID(sf.Status)
		}
		if fmt.Sprint(sortedKV(want)) != fmt.Sprint(sortedKV(gotm)) {
			e.violate("history-mismatch|"+after, fmt.Sprintf("after %s the history of %q is %v, expected %v (request id -> last write)", after, name, sortedKV(gotm), sortedKV(want)))
		}
	}
	for name := range onDisk {
		e.violate("unexpected-definition|"+after, fmt.Sprintf("after %s a definition %q exists that no accepted operation created", after, name))
	}
	for name := range e.gone {
		if _, ok := e.model[name]; ok {
			continue
		}
		c.Count("obligations", 1)
		if got := e.env.Stores.HistoryStore().ReadStatusRecent(e.loc(name), 5); len(got) > 0 {
			e.violate("history-left-behind|"+after, fmt.Sprintf("after %s history is still returned under the former name %q (%d runs)", after, name, len(got)))
		}
	}
}

func sortedKV(m map[string]int) []string {
	var out []string
	for k, v := range m {
		out = append(out, fmt.Sprintf("%s:w%d", k, v))
	}
	sort.Strings(out)
	return out
}

// ---- operations through the client or the web API -------------------------------------

func (e *c18Env) api(method, path string, body any) int {
	var rd *bytes.Reader
	if body != nil {
		jb, _ := json.Marshal(body)
		rd = bytes.NewReader(jb)
	} else {
		rd = bytes.NewReader(nil)
	}
	req := httptest.NewRequest(method, path, rd)
	req.Header.Set("Content-Type", "application/json")
	rec := httptest.NewRecorder()
	e.env.Handler.ServeHTTP(rec, req)
	return rec.Code
}

func httpErr(code int) error {
	if code >= 200 && code < 300 {
		return nil
	}
	return fmt.Errorf("HTTP %d", code)
}

func (e *c18Env) doCreate(viaAPI bool, name string) error {
	if viaAPI {
		return httpErr(e.api("POST", "/api/v1/dags", map[string]string{"action": "new", "value": name}))
	}
	_, err := e.env.Client.CreateDAG(name)
	return err
}

func (e *c18Env) doSave(viaAPI bool, name, text string) error {
	if viaAPI {
		return httpErr(e.api("POST", "/api/v1/dags/"+url.PathEscape(name), map[string]string{"action": "save", "value": text}))
	}
	return e.env.Client.UpdateDAG(name, text)
}

func (e *c18Env) doRename(viaAPI bool, a, b string) error {
	if viaAPI {
		return httpErr(e.api("POST", "/api/v1/dags/"+url.PathEscape(a), map[string]string{"action": "rename", "value": b}))
	}
	return e.env.Client.Rename(a, b)
}

func (e *c18Env) doDelete(viaAPI bool, name string) error {
	if viaAPI {
		return httpErr(e.api("DELETE", "/api/v1/dags/"+url.PathEscape(name), nil))
	}
	return e.env.Client.DeleteDAG(name, e.loc(name))
}

var c18Names = []string{"a", "ab", "a-b", "a b", "x_c", "x", "a*", "a?", "a[1]", "a]", `a\b`, "ñandú", "a_c", "b20240101", "d.e", "20240101.10:00:00"}

func c18Text(r *rand.Rand, huge bool) (text string, class string) {
	switch k := r.Intn(12); {
	case k < 5:
		b, _ := yaml.Marshal(genDoc(r))
		return string(b), "valid"
	case k < 6:
		return "steps:\n  - name: only\n    command: \"true\"\n", "valid"
	case k < 7:
		if huge {
			return "description: \"" + strings.Repeat("x", 1<<20) + "\"\nsteps:\n  - name: big\n    command: \"true\"\n", "valid"
		}
		return "description: \"" + strings.Repeat("y", 5000) + "\"\nsteps:\n  - name: big\n    command: \"true\"\n", "valid"
	case k < 8:
		return "", "empty"
	case k < 9:
		return ": : [", "invalid"
	case k < 10:
		return "unknownField: 1\nsteps:\n  - name: a\n    command: \"true\"\n", "invalid"
	case k < 11:
		return "steps:\n  - command: \"true\"\n", "invalid"
	default:
		return "schedule: \"61 * * * *\"\nsteps:\n  - name: a\n    command: \"true\"\n", "invalid"
	}
}

func c18Sequence(c *core.Ctx, idx int, nops int) {
	r := c.Rand("seq", idx)
	root, err := os.MkdirTemp(c.Scratch, "c18-")
	if err != nil {
		c.Inconclusive("mkdtemp")
		return
	}
	defer os.RemoveAll(root)
	// DAGStore.Find looks into the working directory first: keep it empty
	empty := filepath.Join(root, "cwd")
	_ = os.MkdirAll(empty, 0755)
	_ = os.Chdir(empty)
	env, err := apih.New(root, "/bin/false", apih.Auth{}, false)
	if err != nil {
		c.Inconclusive("apih: " + err.Error())
		return
	}
	e := &c18Env{c: c, idx: idx, env: env, model: map[string]*c18Dag{}, gone: map[string]bool{}, seen: map[string]bool{}}
	names := append([]string{}, c18Names...)
	r.Shuffle(len(names), func(i, j int) { names[i], names[j] = names[j], names[i] })
	names = names[:3+r.Intn(4)]
	c.Begin(idx, map[string]any{"sequence": idx, "names": names})
	defer c.End(idx)
	existing := func() []string {
		var out []string
		for n := range e.model {
			out = append(out, n)
		}
		sort.Strings(out)
		return out
	}
	pick := func(fromExisting bool) string {
		if ex := existing(); fromExisting && len(ex) > 0 {
			return ex[r.Intn(len(ex))]
		}
		return names[r.Intn(len(names))]
	}
	base := time.Now().UTC().Add(-2 * time.Hour)
	for i := 0; i < nops; i++ {
		if len(e.seen) > 0 {
			break // the model may be out of step after a violation: stop this sequence
		}
		viaAPI := r.Intn(3) == 0
		via := "client"
		if viaAPI {
			via = "api"
		}
		c.Eval(1)
		switch k := r.Intn(20); {
		case k < 4: // create
			n := pick(r.Intn(3) == 0)
			_, exists := e.model[n]
			err := e.doCreate(viaAPI, n)
			e.ops = append(e.ops, fmt.Sprintf("%s create %q -> %v", via, n, err))
			c.Count("op_create", 1)
			if exists {
				c.Count("create_on_existing", 1)
				if err == nil {
					e.violate("create-overwrote", fmt.Sprintf("create of the existing DAG %q was accepted", n))
				}
			} else if err == nil {
				b, rerr := os.ReadFile(e.loc(n))
				if rerr != nil {
					e.violate("create-no-file", fmt.Sprintf("create %q reported success but there is no definition file", n))
				} else {
					e.model[n] = &c18Dag{Bytes: b}
					if _, lerr := dag.LoadYAML(b); lerr != nil {
						e.violate("create-invalid-template", fmt.Sprintf("the definition created for %q is not a valid definition: %v", n, lerr))
					}
				}
			} else {
				c.Count("create_refused", 1)
			}
			e.checkAll("create")
		case k < 9: // save
			n := pick(r.Intn(5) != 0)
			text, class := c18Text(r, !c.Quick() && r.Intn(4) == 0)
			d, exists := e.model[n]
			err := e.doSave(viaAPI, n, text)
			e.ops = append(e.ops, fmt.Sprintf("%s save %q %s(%d bytes) -> %v", via, n, class, len(text), err))
			c.Count("op_save_"+class, 1)
			switch {
			case class == "invalid" && err == nil:
				e.violate("save-invalid-accepted", fmt.Sprintf("save of an invalid definition for %q was accepted: %q", n, clip(text, 100)))
				if exists {
					d.Bytes = []byte(text)
				}
			case err == nil && exists:
				d.Bytes = []byte(text)
				c.Count("save_accepted", 1)
			case err == nil && !exists:
				// not judged by the statement; follow what happened
				if b, rerr := os.ReadFile(e.loc(n)); rerr == nil {
					e.model[n] = &c18Dag{Bytes: b}
				}
			default:
				c.Count("save_refused", 1)
			}
			e.checkAll("save-" + class)
		case k < 13: // rename
			a := pick(r.Intn(6) != 0)
			b := pick(r.Intn(2) == 0)
			if a == b || r.Intn(12) == 0 {
				// a rename onto the DAG's own name, plain or with the extension spelled out: whatever
				// the answer, the definition and its history are the ones it had
				target := a
				if r.Intn(2) == 0 {
					target = a + ".yaml"
				}
				_, aok := e.model[a]
				err := e.doRename(viaAPI, a, target)
				e.ops = append(e.ops, fmt.Sprintf("%s rename %q -> %q (its own name) : %v", via, a, target, err))
				c.Count("op_rename_onto_own_name", 1)
				if !aok && err == nil {
					e.violate("rename-missing-accepted", fmt.Sprintf("rename of the non-existing DAG %q was accepted", a))
				}
				e.checkAll("rename-onto-own-name")
				continue
			}
			da, aok := e.model[a]
			_, bok := e.model[b]
			err := e.doRename(viaAPI, a, b)
			e.ops = append(e.ops, fmt.Sprintf("%s rename %q -> %q : %v", via, a, b, err))
			c.Count("op_rename", 1)
			switch {
			case aok && bok:
				c.Count("rename_onto_existing", 1)
				if err == nil {
					e.violate("rename-overwrote", fmt.Sprintf("rename of %q onto the existing DAG %q was accepted", a, b))
					// follow what happened so that later checks stay meaningful
					e.model[b] = da
					delete(e.model, a)
					e.gone[a] = true
				}
			case aok && err == nil:
				e.model[b] = da
				delete(e.model, a)
				e.gone[a] = true
				delete(e.gone, b)
				c.Count("rename_accepted", 1)
			case !aok && err == nil:
				e.violate("rename-missing-accepted", fmt.Sprintf("rename of the non-existing DAG %q was accepted", a))
			default:
				c.Count("rename_refused", 1)
			}
			e.checkAll("rename")
		case k < 15: // delete
			n := pick(r.Intn(5) != 0)
			_, exists := e.model[n]
			err := e.doDelete(viaAPI, n)
			e.ops = append(e.ops, fmt.Sprintf("%s delete %q -> %v", via, n, err))
			c.Count("op_delete", 1)
			if exists && err == nil {
				delete(e.model, n)
				e.gone[n] = true
				c.Count("delete_accepted", 1)
			}
			e.checkAll("delete")
		case k < 19: // a recorded run
			ex := existing()
			if len(ex) == 0 {
				continue
			}
			n := ex[r.Intn(len(ex))]
			d := e.model[n]
			e.nreq++
			req := fmt.Sprintf("%08d-r", e.nreq+idx*1000)
			start := base.Add(time.Duration(e.nreq) * 1500 * time.Millisecond)
			db := jsondb.New(e.env.Data, false)
			if err := db.Open(e.loc(n), start, req); err != nil {
				e.ops = append(e.ops, fmt.Sprintf("record %q: open failed %v", n, err))
				continue
			}
			nw := 1 + r.Intn(3)
			for w := 0; w < nw; w++ {
				e.nextID++
				_ = db.Write(mkStatus(e.loc(n), req, start, e.nextID, 50+r.Intn(400)))
			}
			_ = db.Close()
			d.Runs = append(d.Runs, &c18Run{Req: req, LastID: e.nextID})
			e.ops = append(e.ops, fmt.Sprintf("record run %s of %q (%d writes)", req, n, nw))
			c.Count("op_record", 1)
			e.checkAll("record")
		default: // list
			_, _, err := e.env.Client.GetAllStatus()
			code := e.api("GET", "/api/v1/dags", nil)
			e.ops = append(e.ops, fmt.Sprintf("list -> %v / HTTP %d", err, code))
			c.Count("op_list", 1)
			e.checkAll("list")
		}
	}
	c.Sig(idx, len(e.ops), e.ops)
	if idx%50 == 0 {
		ops := e.ops
		if len(ops) > 12 {
			ops = ops[:12]
		}
		c.Sample(map[string]any{"sequence": idx, "names": names, "first_ops": ops})
	}
}

// ---- crash monitor -----------------------------------------------------------------------

type c18Crash struct {
	Root string `json:"root"`
	Name string `json:"name"`
	New  string `json:"newFile"` // file holding the new text
	Via  string `json:"via"`
}

func c18Worker(args []string) int {
	b, err := os.ReadFile(args[0])
	if err != nil {
		return 3
	}
	var sp c18Crash
	if json.Unmarshal(b, &sp) != nil {
		return 3
	}
	text, err := os.ReadFile(sp.New)
	if err != nil {
		return 3
	}
	ack := os.NewFile(3, "ack")
	ds := dsclient.NewDataStores(filepath.Join(sp.Root, "dags"), filepath.Join(sp.Root, "data"), filepath.Join(sp.Root, "suspend"), dsclient.DataStoreOptions{})
	cli := client.New(ds, "/bin/false", sp.Root, c13Logger)
	if f, err := os.Open("/verif-marker-begin"); err == nil {
		f.Close()
	}
	if sp.Via == "store" {
		err = ds.DAGStore().UpdateSpec(sp.Name, text)
	} else {
		err = cli.UpdateDAG(sp.Name, string(text))
	}
	if err != nil {
		fmt.Fprintf(ack, "ERR %v\n", err)
		return 0
	}
	fmt.Fprintln(ack, "ACK")
	return 0
}

func init() { core.Sub["c18worker"] = c18Worker }

func c18CrashBody(c *core.Ctx) {
	if gate.Sysgate() == "" {
		c.Inconclusive("sysgate not built")
		return
	}
	self, _ := os.Executable()
	mk := func(n int, tag string) string {
		return "description: \"" + tag + strings.Repeat(tag[:1], n) + "\"\nsteps:\n  - name: " + tag + "\n    command: \"true\"\n"
	}
	type pair struct{ old, new_, label string }
	pairs := []pair{
		{mk(10, "old"), mk(10, "new"), "small->small(same size)"},
		{mk(10, "old"), mk(3000, "new"), "small->larger"},
		{mk(3000, "old"), mk(10, "new"), "larger->small"},
		{mk(70000, "old"), mk(70000, "new"), "70k->70k"},
	}
	if !c.Quick() {
		pairs = append(pairs, pair{mk(10, "old"), mk(1<<20, "new"), "small->1MiB"}, pair{mk(1<<20, "old"), mk(10, "new"), "1MiB->small"},
			pair{mk(5000, "old"), ": : [", "valid->invalid (must be refused)"}, pair{mk(5000, "old"), "", "valid->empty"})
	}
	tears := []float64{0.5}
	if !c.Quick() {
		tears = []float64{0.0001, 0.25, 0.5, 0.9999}
	}
	idx := 0
	for _, via := range []string{"store", "client"} {
		for _, p := range pairs {
			if !c.Mine(idx) {
				idx++
				continue
			}
			c.Begin(idx, map[string]any{"pair": p.label, "via": via})
			failAt := 0
			run := func(killAt int, tear float64) (*gate.Result, string) {
				root, err := os.MkdirTemp(c.Scratch, "c18k-")
				if err != nil {
					return nil, ""
				}
				_ = os.MkdirAll(filepath.Join(root, "dags"), 0755)
				_ = os.WriteFile(filepath.Join(root, "dags", "victim.yaml"), []byte(p.old), 0644)
				_ = os.WriteFile(filepath.Join(root, "dags", "bystander.yaml"), []byte(mk(20, "bys")), 0644)
				_ = os.WriteFile(filepath.Join(root, "new.txt"), []byte(p.new_), 0644)
				jb, _ := json.Marshal(c18Crash{Root: root, Name: "victim", New: filepath.Join(root, "new.txt"), Via: via})
				sf := filepath.Join(root, "spec.json")
				_ = os.WriteFile(sf, jb, 0644)
				res, err := gate.Run(gate.Opts{Watch: []string{filepath.Join(root, "dags")}, FromMarker: true, KillAt: killAt, Tear: tear, FailAt: failAt, Errno: 28,
					Env: []string{"TZ=UTC"}, Timeout: 60 * time.Second}, c.Scratch, self, "c18worker", sf)
				if err != nil {
					os.RemoveAll(root)
					return nil, ""
				}
				return res, root
			}
			judge := func(root, where string, acked bool, caseDesc map[string]any) {
				c.Count("obligations", 2)
				b, err := os.ReadFile(filepath.Join(root, "dags", "victim.yaml"))
				isOld, isNew := err == nil && string(b) == p.old, err == nil && string(b) == p.new_
				switch {
				case err != nil:
					c.Violate(idx, "save-crash-file-gone|"+where, "after a kill during the save the definition file does not exist: "+err.Error(), caseDesc)
				case acked && !isNew:
					c.Violate(idx, "save-acked-not-new|"+where, fmt.Sprintf("the save was acknowledged but the file holds %d bytes that are not the new text", len(b)), caseDesc)
				case !isOld && !isNew:
					c.Violate(idx, "save-crash-partial|"+where, fmt.Sprintf("after a kill during the save the file holds %d bytes: neither the complete old (%d) nor the complete new (%d) text", len(b), len(p.old), len(p.new_)), caseDesc)
				}
				if bb, err := os.ReadFile(filepath.Join(root, "dags", "bystander.yaml")); err != nil || string(bb) != mk(20, "bys") {
					c.Violate(idx, "save-crash-bystander|"+where, "another DAG's definition changed during the save", caseDesc)
				}
			}
			res, root := run(0, 0)
			if res == nil || res.TimedOut {
				c.Inconclusive("c18 count run failed")
				c.End(idx)
				idx++
				continue
			}
			refused := false
			for _, a := range res.Acks {
				if strings.HasPrefix(a, "ERR") {
					refused = true
				}
			}
			if refused {
				// a rejected save must leave the old text
				b, _ := os.ReadFile(filepath.Join(root, "dags", "victim.yaml"))
				c.Count("obligations", 1)
				if string(b) != p.old {
					c.Violate(idx, "save-rejected-changed", "a rejected save changed the definition", map[string]any{"pair": p.label, "via": via})
				}
			} else {
				judge(root, "no-kill", true, map[string]any{"pair": p.label, "via": via, "kill_at": 0})
			}
			os.RemoveAll(root)
			N := len(res.Events)
			c.Count("watched_syscalls_total", int64(N))
			for _, ev := range res.Events {
				c.SetAdd("crash_point_labels", ev.Label())
			}
			for k := 1; k <= N; k++ {
				tt := []float64{0}
				if strings.HasPrefix(res.Events[k-1].Name, "write") && res.Events[k-1].Len > 1 {
					tt = append(tt, tears...)
				}
				for _, tear := range tt {
					kres, kroot := run(k, tear)
					if kres == nil || kres.TimedOut {
						c.Inconclusive("c18 kill run failed")
						continue
					}
					c.Eval(1)
					if !kres.Killed {
						c.Count("kill_point_not_reached", 1)
						os.RemoveAll(kroot)
						continue
					}
					c.Count("kills", 1)
					where := res.Events[k-1].Label()
					if tear > 0 {
						where += "|torn"
						c.Count("torn_writes", 1)
					}
					acked := false
					for _, a := range kres.Acks {
						if a == "ACK" {
							acked = true
						}
					}
					judge(kroot, where, acked, map[string]any{"pair": p.label, "via": via, "kill_at": k, "of": N, "tear": tear, "syscall": res.Events[k-1]})
					c.Sig(via, p.label, k, tear)
					if k == 2 && tear == 0 {
						c.Sample(map[string]any{"pair": p.label, "via": via, "kill_at": k, "of": N, "syscall": res.Events[k-1]})
					}
					os.RemoveAll(kroot)
				}
			}
			// the same positions with an I/O error instead of a kill: system call k returns
			// ENOSPC and the saving process runs on; a save that then reports failure is a
			// rejected save (old text complete), one that reports success holds the new text
			for k := 1; k <= N; k++ {
				failAt = k
				fres, froot := run(0, 0)
				failAt = 0
				if fres == nil || fres.TimedOut {
					c.Inconclusive("c18 fail-injection run failed")
					continue
				}
				c.Eval(1)
				if !fres.Failed {
					os.RemoveAll(froot)
					continue
				}
				c.Count("io_errors_injected", 1)
				c.Count("obligations", 2)
				acked, errd := false, false
				for _, a := range fres.Acks {
					if a == "ACK" {
						acked = true
					}
					if strings.HasPrefix(a, "ERR") {
						errd = true
					}
				}
				where := res.Events[k-1].Label()
				b, rerr := os.ReadFile(filepath.Join(froot, "dags", "victim.yaml"))
				desc := map[string]any{"pair": p.label, "via": via, "enospc_at": k, "of": N, "syscall": res.Events[k-1], "save_reported": map[bool]string{true: "success", false: "failure"}[acked]}
				switch {
				case rerr != nil:
					c.Violate(idx, "save-ioerror-file-gone|"+where, "after an I/O error during the save the definition file does not exist", desc)
				case acked && !refused && string(b) != p.new_:
					c.Violate(idx, "save-ioerror-acked-not-new|"+where, fmt.Sprintf("the save reported success although a system call failed, and the file holds %d bytes that are not the new text", len(b)), desc)
				case errd && string(b) != p.old:
					c.Violate(idx, "save-ioerror-partial|"+where, fmt.Sprintf("the save reported failure (ENOSPC at %s) but the file no longer holds the complete old text (%d bytes now, old %d, new %d)", where, len(b), len(p.old), len(p.new_)), desc)
				case !acked && !errd:
					c.Count("save_died_on_io_error", 1)
				}
				if bb, err := os.ReadFile(filepath.Join(froot, "dags", "bystander.yaml")); err != nil || string(bb) != mk(20, "bys") {
					c.Violate(idx, "save-ioerror-bystander|"+where, "another DAG's definition changed during a failing save", desc)
				}
				c.Sig(via, p.label, "enospc", k)
				os.RemoveAll(froot)
			}
			c.End(idx)
			idx++
		}
	}
}

func c18Body(c *core.Ctx) {
	if c.Mode == "crash" {
		c18CrashBody(c)
		return
	}
	if c.Mode == "concurrent" {
		c18ConcBody(c)
		return
	}
	n := c.Pick(1600, 24000)
	nops := c.Pick(30, 60)
	for idx := 0; idx < n; idx++ {
		if !c.Mine(idx) {
			continue
		}
		c18Sequence(c, idx, nops)
	}
}

func init() {
	core.Register(&core.Prop{ID: "C18", Level: "exploration", Body: c18Body, CrashKey: crashKeyGeneric, MinDistinct: 100,
		Passes: func(tier string) []core.Pass {
			return []core.Pass{
				{Name: "model", Mode: "model", Shards: 16, Timeout: 60 * time.Minute},
				{Name: "crash", Mode: "crash", Shards: 8, Timeout: 60 * time.Minute},
				{Name: "concurrent", Mode: "concurrent", Shards: 8, Timeout: 60 * time.Minute},
			}
		},
		Rule:        "Model pass: 1600 (24000) sequences of 30 (60) operations over 3-6 DAG names drawn from a hostile pool (spaces, glob metacharacters * ? [ ] \\, dots, the compaction suffix, a timestamp look-alike, unicode): create, save (valid generated definitions, minimal, 5 kB / 1 MiB, empty, four kinds of invalid text), rename (onto free and onto existing names, of missing DAGs, onto the DAG own name plain and with .yaml), delete, list, and recorded runs (real jsondb Open/Write*/Close with unique write ids) — one third of the operations through the assembled web API (POST /dags, POST action save/rename, DELETE), the rest through client.Client. After EVERY operation the whole observable state is compared with a reference model: bytes of every definition (file and GetDAGSpec), the set of definition files, the history of every DAG (request id -> last write id through ReadStatusRecent), no history under names that were renamed away or deleted. Crash pass (fault enumeration): a worker process performing UpdateSpec / client.UpdateDAG is SIGKILLed by the ptrace supervisor before EVERY watched system call of the save under the DAGs directory, and every write is torn at 1/2 (thorough: 1 byte, 1/4, 1/2, L-1), for 4 (8) old/new size pairs; the surviving file must hold the complete old or the complete new text (the new one if the save was acknowledged), a bystander definition must be unchanged. The same positions are then replayed with an I/O error instead of a kill (the system call returns ENOSPC and the process runs on): a save that reports failure must have left the complete old text, one that reports success the new text. Non-trivial = every sequence / every delivered kill; distinct = (sequence ops) / (pair, k, tear).",
		Assumptions: []string{"validity of a candidate text is decided by construction (generated valid documents vs. syntax error / unknown field / nameless step / impossible cron); the empty text is not judged", "SIGKILL semantics: user-space buffers are lost, the page cache is not"}})
}
