package props

// C18, concurrent pass: the web server handles requests concurrently and several clients share
// one DAGs directory, so creates, saves and renames of one name do overlap.  Two kinds of trial:
//
//  - save || save || read: K savers store different complete texts under one name while readers
//    read the definition (raw file and GetDAGSpec); every read must be one of the complete texts
//    that were ever acknowledged or being saved (never empty, never a mixture), and at quiescence
//    the file holds a complete text whose save was acknowledged.
//  - check-then-act windows: operation A is held at the hook point right after its "does the
//    target exist?" check (dagstore.create.checked / dagstore.rename.checked); operation B then
//    creates the target and saves a text into it (or renames another DAG onto it) and is
//    acknowledged; A is released.  Whatever A reports, the definition that B put under the target
//    name must still be there, byte for byte.

import (
	"bytes"
	"fmt"
	"math/rand"
	"os"
	"path/filepath"
	"strings"
	"sync"
	"sync/atomic"
	"time"

	"github.com/ErdemOzgen/blackdagger/internal/verifhook"
	"github.com/ErdemOzgen/blackdagger/verifh/apih"
	"github.com/ErdemOzgen/blackdagger/verifh/core"
)

type c18Gate struct {
	mu      sync.Mutex
	point   string
	loc     string
	armed   bool
	reached chan struct{}
	release chan struct{}
	jitter  atomic.Int64 // >0: yield that many microseconds (max) at the save points
	rnd     atomic.Int64
}

var c18G c18Gate

func (g *c18Gate) arm(point, loc string) {
	g.mu.Lock()
	g.point, g.loc, g.armed = point, loc, true
	g.reached, g.release = make(chan struct{}), make(chan struct{})
	g.mu.Unlock()
}

func (g *c18Gate) hook(name string, arg any) {
	loc, _ := arg.(string)
	if j := g.jitter.Load(); j > 0 && strings.HasPrefix(name, "dagstore.save.") {
		x := g.rnd.Add(0x9E3779B97F4A7C15 >> 1)
		x ^= x >> 29
		if d := (x & 0x7fffffff) % (j + 1); d > 0 {
			time.Sleep(time.Duration(d) * time.Microsecond)
		}
		return
	}
	g.mu.Lock()
	hit := g.armed && g.point == name && g.loc == loc
	var reached, release chan struct{}
	if hit {
		g.armed = false
		reached, release = g.reached, g.release
	}
	g.mu.Unlock()
	if hit {
		close(reached)
		select {
		case <-release:
		case <-time.After(30 * time.Second):
		}
	}
}

func c18ValidTexts(r *rand.Rand, n int, big bool) []string {
	var out []string
	for i := 0; i < n; i++ {
		size := []int{0, 40, 700, 5000, 70000}[r.Intn(5)]
		if big && r.Intn(3) == 0 {
			size = 1 << 20
		}
		// the tag makes every text unique and recognisable from its first and last bytes
		out = append(out, fmt.Sprintf("description: \"t%d-%s\"\nsteps:\n  - name: s%d\n    command: \"true\"\n# end-of-t%d\n", i, strings.Repeat(string(rune('a'+i)), size), i, i))
	}
	return out
}

func c18ConcBody(c *core.Ctx) {
	verifhook.Set(c18G.hook)
	defer verifhook.Set(nil)
	n := c.Pick(600, 12000)
	for idx := 0; idx < n; idx++ {
		if !c.Mine(idx) {
			continue
		}
		if idx%3 == 0 {
			c18SaveRace(c, idx)
		} else {
			c18Window(c, idx)
		}
	}
}

func c18NewEnv(c *core.Ctx) (*apih.Env, string, bool) {
	root, err := os.MkdirTemp(c.Scratch, "c18c-")
	if err != nil {
		c.Inconclusive("mkdtemp")
		return nil, "", false
	}
	empty := filepath.Join(root, "cwd")
	_ = os.MkdirAll(empty, 0755)
	_ = os.Chdir(empty)
	env, err := apih.New(root, "/bin/false", apih.Auth{}, false)
	if err != nil {
		os.RemoveAll(root)
		c.Inconclusive("apih: " + err.Error())
		return nil, "", false
	}
	return env, root, true
}

func c18SaveRace(c *core.Ctx, idx int) {
	r := c.Rand("c18conc", idx)
	env, root, ok := c18NewEnv(c)
	if !ok {
		return
	}
	defer os.RemoveAll(root)
	e := &c18Env{c: c, idx: idx, env: env, model: map[string]*c18Dag{}, gone: map[string]bool{}, seen: map[string]bool{}}
	name := c18Names[r.Intn(len(c18Names))]
	K := 2 + r.Intn(3)
	rounds := 1 + r.Intn(3)
	texts := c18ValidTexts(r, K*rounds+1, !c.Quick())
	jit := []int64{0, 0, 50, 400}[r.Intn(4)]
	desc := map[string]any{"kind": "save||save", "name": name, "savers": K, "rounds": rounds, "jitter_us": jit}
	c.Begin(idx, desc)
	defer c.End(idx)
	if err := e.doCreate(false, name); err != nil {
		return
	}
	if err := e.doSave(false, name, texts[0]); err != nil {
		c.Violate(idx, "conc-initial-save-refused", "the initial save of a valid text was refused: "+err.Error(), desc)
		return
	}
	allowed := map[string]int{}
	for i, t := range texts {
		allowed[t] = i
	}
	invalid := "steps:\n  - command: \"true\"\n"
	c18G.jitter.Store(jit)
	defer c18G.jitter.Store(0)
	var wg sync.WaitGroup
	var acked sync.Map
	acked.Store(0, true)
	var stop atomic.Bool
	var bad atomic.Pointer[string]
	var reads, distinctReads atomic.Int64
	loc := e.loc(name)
	judge := func(b []byte, how string) {
		reads.Add(1)
		if _, ok := allowed[string(b)]; !ok {
			head := clip(string(b), 60)
			s := fmt.Sprintf("%s returned %d bytes that are none of the %d complete texts (starts %q, ends %q)", how, len(b), len(texts), head, tailOf(string(b), 40))
			bad.CompareAndSwap(nil, &s)
		}
	}
	for rd := 0; rd < 2; rd++ {
		wg.Add(1)
		go func(rd int) {
			defer wg.Done()
			last := -1
			for !stop.Load() {
				if rd == 0 {
					if b, err := os.ReadFile(loc); err == nil {
						judge(b, "reading the definition file")
						if i, ok := allowed[string(b)]; ok && i != last {
							last = i
							distinctReads.Add(1)
						}
					}
				} else if s, err := env.Client.GetDAGSpec(name); err == nil {
					judge([]byte(s), "GetDAGSpec")
				}
			}
		}(rd)
	}
	var swg sync.WaitGroup
	for k := 0; k < K; k++ {
		swg.Add(1)
		go func(k int) {
			defer swg.Done()
			for j := 0; j < rounds; j++ {
				ti := 1 + k*rounds + j
				viaAPI := (k+j)%3 == 0
				// mark before the call: a save may take effect before it is acknowledged
				acked.Store(ti, false)
				if err := e.doSave(viaAPI, name, texts[ti]); err == nil {
					acked.Store(ti, true)
				} else {
					c.Count("concurrent_saves_refused", 1)
				}
				if k == 0 && j == 0 {
					if err := e.doSave(viaAPI, name, invalid); err == nil {
						s := "an invalid text was accepted during concurrent saves"
						bad.CompareAndSwap(nil, &s)
					}
				}
			}
		}(k)
	}
	swg.Wait()
	stop.Store(true)
	wg.Wait()
	c.Eval(1)
	c.Count("obligations", reads.Load()+1)
	c.Count("concurrent_saves", int64(K*rounds))
	c.Count("reads_during_saves", reads.Load())
	c.Count("distinct_texts_seen_by_reader", distinctReads.Load())
	if p := bad.Load(); p != nil {
		c.Violate(idx, "conc-save-torn-read", *p, desc)
		return
	}
	b, err := os.ReadFile(loc)
	if err != nil {
		c.Violate(idx, "conc-save-file-gone", "after concurrent saves the definition file cannot be read: "+err.Error(), desc)
		return
	}
	ti, ok := allowed[string(b)]
	switch {
	case !ok:
		c.Violate(idx, "conc-save-final-mixture", fmt.Sprintf("after %d concurrent saves the file holds %d bytes that are none of the complete texts (starts %q, ends %q)", K*rounds, len(b), clip(string(b), 60), tailOf(string(b), 40)), desc)
	default:
		if v, _ := acked.Load(ti); v != true {
			c.Violate(idx, "conc-save-final-unacknowledged", fmt.Sprintf("after the concurrent saves the file holds text #%d whose save reported failure", ti), desc)
		}
	}
	c.Sig("saverace", K, rounds, jit, ti)
}

func tailOf(s string, n int) string {
	if len(s) <= n {
		return s
	}
	return s[len(s)-n:]
}

// c18Window: check-then-act windows of create and rename.
func c18Window(c *core.Ctx, idx int) {
	r := c.Rand("c18win", idx)
	env, root, ok := c18NewEnv(c)
	if !ok {
		return
	}
	defer os.RemoveAll(root)
	e := &c18Env{c: c, idx: idx, env: env, model: map[string]*c18Dag{}, gone: map[string]bool{}, seen: map[string]bool{}}
	names := append([]string{}, c18Names...)
	r.Shuffle(len(names), func(i, j int) { names[i], names[j] = names[j], names[i] })
	src, other, target := names[0], names[1], names[2]
	texts := c18ValidTexts(r, 3, false)
	kinds := []string{"create|create+save", "rename|create+save", "rename|rename", "create|rename"}
	kind := kinds[r.Intn(len(kinds))]
	aAPI, bAPI := r.Intn(3) == 0, r.Intn(3) == 0
	desc := map[string]any{"kind": kind, "src": src, "other": other, "target": target, "a_via_api": aAPI, "b_via_api": bAPI}
	c.Begin(idx, desc)
	defer c.End(idx)
	mk := func(n, text string) bool {
		if err := e.doCreate(false, n); err != nil {
			return false
		}
		return e.doSave(false, n, text) == nil
	}
	tloc := e.loc(target)
	var aOp func() error
	var point string
	switch kind {
	case "create|create+save", "create|rename":
		point = "dagstore.create.checked"
		aOp = func() error { return e.doCreate(aAPI, target) }
	default:
		point = "dagstore.rename.checked"
		if !mk(src, texts[0]) {
			return
		}
		aOp = func() error { return e.doRename(aAPI, src, target) }
	}
	if strings.HasSuffix(kind, "|rename") && !mk(other, texts[1]) {
		return
	}
	c18G.arm(point, tloc)
	aDone := make(chan error, 1)
	go func() { aDone <- aOp() }()
	select {
	case <-c18G.reached:
	case err := <-aDone:
		// A never got past its own checks (e.g. a name the store refuses): nothing to judge
		c.Count("window_not_reached", 1)
		_ = err
		return
	case <-time.After(20 * time.Second):
		c.Inconclusive("c18 window: operation A neither reached its check point nor returned")
		return
	}
	// B: acknowledged while A sits between its check and its act
	var want []byte
	var bErr error
	if strings.HasSuffix(kind, "|rename") {
		bErr = e.doRename(bAPI, other, target)
		want = []byte(texts[1])
	} else {
		if bErr = e.doCreate(bAPI, target); bErr == nil {
			bErr = e.doSave(bAPI, target, texts[2])
		}
		want = []byte(texts[2])
	}
	close(c18G.release)
	var aErr error
	select {
	case aErr = <-aDone:
	case <-time.After(30 * time.Second):
		c.Inconclusive("c18 window: operation A did not return after release")
		return
	}
	c.Eval(1)
	c.Count("obligations", 1)
	if bErr != nil {
		c.Count("window_b_refused", 1)
		return
	}
	c.Count("windows_"+kind, 1)
	desc["a_result"], desc["b_result"] = fmt.Sprint(aErr), fmt.Sprint(bErr)
	got, rerr := os.ReadFile(tloc)
	switch {
	case rerr != nil:
		c.Violate(idx, "window-target-gone|"+kind, fmt.Sprintf("B put a definition under %q and was acknowledged; after A (%s, result %v) the file cannot be read: %v", target, strings.SplitN(kind, "|", 2)[0], aErr, rerr), desc)
	case !bytes.Equal(got, want):
		c.Violate(idx, "window-overwrote|"+kind, fmt.Sprintf("B put a definition under %q and was acknowledged; A (%s of the same target, started before, result %v) replaced it: file now %d bytes starting %q, expected the %d bytes B stored", target, strings.SplitN(kind, "|", 2)[0], aErr, len(got), clip(string(got), 50), len(want)), desc)
	}
	if aErr == nil {
		c.Count("window_a_also_acknowledged", 1)
	}
	c.Sig("window", kind, aAPI, bAPI, aErr == nil)
}
