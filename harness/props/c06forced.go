package props

import (
	"fmt"
	"os"
	"path/filepath"
	"strings"
	"syscall"
	"time"

	"github.com/ErdemOzgen/blackdagger/internal/persistence/jsondb"
	"github.com/ErdemOzgen/blackdagger/internal/persistence/model"
	"github.com/ErdemOzgen/blackdagger/verifh/core"
)

// Forced pass: one interleaving of a server-side query with the end of a run, decided by the
// harness instead of left to the scheduler of the machine.
//
//	query:  list the status files of the DAG ........................ read the files listed
//	agent:                                     Close (compaction: <run>.dat -> <run>_c.dat)
//
// The query is held between its listing and its reads without a hook in the store: two named
// pipes carry the names of two newer status files. A query reads newest first, and opening a
// pipe for reading blocks until somebody opens it for writing, so
//   - when the first pipe can be opened for writing (O_NONBLOCK succeeds only if a reader is
//     waiting), the query has made its listing;
//   - the query then waits in the open of the second pipe until the harness, having ended the
//     run, opens that one too.
//
// A pipe is not a status file; the query has to skip it like any unreadable file. The run was
// recorded (its last write acknowledged) before the query began, so the query must return it,
// with that write.
func c06Forced(c *core.Ctx) {
	rounds := c.Pick(48, 960)
	for idx := 0; idx < rounds; idx++ {
		if !c.Mine(idx) {
			continue
		}
		r := c.Rand("forced", idx)
		query := []string{"recent", "today", "today-any-day", "recent-1"}[idx%4]
		older := []int{0, 1, 3}[(idx/4)%3]
		nWrites := 1 + (idx/24)%3
		// every second dozen of rounds: the process lives in a time zone whose calendar date is
		// not the UTC date at this moment (as a server in Auckland or Honolulu does for half
		// of every day)
		zone := "as-is"
		time.Local = c06Zone0
		if (idx/12)%2 == 1 {
			if time.Now().UTC().Hour() < 12 {
				zone, time.Local = "UTC-12", time.FixedZone("UTC-12", -12*3600)
			} else {
				zone, time.Local = "UTC+14", time.FixedZone("UTC+14", 14*3600)
			}
		}
		size := []int{200, 3000, 20000}[r.Intn(3)]
		cached := r.Intn(2) == 0
		desc := map[string]any{"round": idx, "query": query, "older_finished_runs": older, "writes_of_the_run": nWrites, "payload": size, "server_instance_has_queried_before": cached, "time_zone_of_the_process": zone}
		c.Begin(idx, desc)
		func() {
			root, err := os.MkdirTemp(c.Scratch, "c06f-")
			if err != nil {
				c.Inconclusive("mkdtemp")
				return
			}
			defer os.RemoveAll(root)
			dagFile := filepath.Join(root, "dags", "forced.yaml")
			data := filepath.Join(root, "data")
			now := time.Now()
			wid := idx*100 + 1
			// older runs, finished and compacted
			var olderReq []string
			for i := 0; i < older; i++ {
				db := jsondb.New(data, true)
				req := fmt.Sprintf("%04dold%d-f", idx%10000, i)
				st := now.Add(-time.Duration(older-i) * 3 * time.Second)
				if err := db.Open(dagFile, st, req); err != nil {
					c.Inconclusive("forced: open: " + err.Error())
					return
				}
				_ = db.Write(mkStatus(dagFile, req, st, wid, 100))
				wid++
				_ = db.Close()
				olderReq = append(olderReq, req)
			}
			server := jsondb.New(data, query != "today-any-day")
			if cached {
				_ = server.ReadStatusRecent(dagFile, 10)
				_, _ = server.ReadStatusToday(dagFile)
			}
			// the run: started, written, not yet ended
			agent := jsondb.New(data, true)
			req := fmt.Sprintf("%04drun0-f", idx%10000)
			start := now.Add(-time.Second)
			if err := agent.Open(dagFile, start, req); err != nil {
				c.Inconclusive("forced: open: " + err.Error())
				return
			}
			last := 0
			for w := 0; w < nWrites; w++ {
				if err := agent.Write(mkStatus(dagFile, req, start, wid, size)); err != nil {
					c.Inconclusive("forced: write: " + err.Error())
					return
				}
				last = wid
				wid++
			}
			// the run's file, and two pipes named like the files of two later runs
			dir := ""
			runFile := ""
			_ = filepath.Walk(data, func(p string, info os.FileInfo, err error) error {
				if err == nil && !info.IsDir() && strings.Contains(p, req[:8]) && strings.HasSuffix(p, ".dat") {
					runFile, dir = p, filepath.Dir(p)
				}
				return nil
			})
			if runFile == "" {
				c.Inconclusive("forced: the run's status file was not found")
				return
			}
			var pipes [2]string
			for i, ms := range []int{600, 300} {
				before := listNames(dir)
				tmp := jsondb.New(data, true)
				if err := tmp.Open(dagFile, start.Add(time.Duration(ms)*time.Millisecond), fmt.Sprintf("pipe%04d-f", i)); err != nil {
					c.Inconclusive("forced: open: " + err.Error())
					return
				}
				name := ""
				for n := range listNames(dir) {
					if !before[n] {
						name = filepath.Join(dir, n)
					}
				}
				if name == "" || os.Remove(name) != nil || syscall.Mkfifo(name, 0600) != nil {
					c.Inconclusive("forced: cannot place the pipe")
					return
				}
				pipes[i] = name
			}
			var recent []*model.StatusFile
			var today *model.Status
			var qerr error
			done := make(chan struct{})
			go func() {
				defer close(done)
				switch query {
				case "recent":
					recent = server.ReadStatusRecent(dagFile, 5)
				case "recent-1":
					recent = server.ReadStatusRecent(dagFile, 1)
				default:
					today, qerr = server.ReadStatusToday(dagFile)
				}
			}()
			openW := func(p string) *os.File {
				for i := 0; i < 20000; i++ {
					f, err := os.OpenFile(p, os.O_WRONLY|syscall.O_NONBLOCK, 0)
					if err == nil {
						return f
					}
					select {
					case <-done:
						return nil
					default:
					}
					time.Sleep(time.Millisecond)
				}
				return nil
			}
			when := "ended between the query's listing and its reads"
			w1 := openW(pipes[0]) // the query has made its listing
			if w1 == nil {
				// the query returned without coming to the pipe: nothing was interleaved, its
				// answer is that of a plain query after the run's last write
				select {
				case <-done:
				case <-time.After(5 * time.Second):
					c.Inconclusive("forced: the query neither came to the pipe nor returned")
					return
				}
				c.Count("forced_query_did_not_reach_the_pipe", 1)
				when = "was still going on when the query was made"
				_ = agent.Close()
			} else {
				cerr := agent.Close() // the run ends: <run>.dat -> <run>_c.dat
				_, statErr := os.Stat(runFile)
				w2 := openW(pipes[1]) // let the query go on to the run
				w1.Close()
				if w2 != nil {
					w2.Close()
				}
				select {
				case <-done:
				case <-time.After(30 * time.Second):
					c.Violate(idx, "forced-query-hangs|"+query, "a query that met a run ending between its listing and its reads did not return in 30 s", desc)
					return
				}
				if cerr != nil || statErr == nil {
					c.Inconclusive(fmt.Sprintf("forced: the run was not compacted (close: %v)", cerr))
					return
				}
				c.Count("forced_interleavings", 1)
			}
			if y1, m1, d1 := start.Date(); query == "today" {
				y2, m2, d2 := time.Now().Date()
				if start.UTC().Day() != time.Now().UTC().Day() || y1 != y2 || m1 != m2 || d1 != d2 {
					c.Count("forced_skipped_at_midnight", 1)
					return
				}
			}
			c.Eval(1)
			c.Count("obligations", 1)
			c.Sig("forced", query, older, nWrites, cached, zone != "as-is")
			c.SetAdd("forced_time_zones", zone)
			switch query {
			case "recent", "recent-1":
				var got []string
				for _, sf := range recent {
					got = append(got, fmt.Sprintf("%s/w%d", sf.Status.RequestID, writeID(sf.Status)))
				}
				desc["answer"] = got
				if len(recent) == 0 || recent[0].Status.RequestID != req {
					c.Violate(idx, "forced-missing|"+query, fmt.Sprintf("run %s was recorded before the query began and %s: the recent history %v does not begin with it", req, when, got), desc)
					return
				}
				if id := writeID(recent[0].Status); id != last {
					c.Violate(idx, "forced-stale|"+query, fmt.Sprintf("run %s is returned with write %d, its last acknowledged write is %d", req, id, last), desc)
					return
				}
				if query == "recent" {
					want := 1 + older
					if len(recent) != want {
						c.Violate(idx, "forced-missing-older|"+query, fmt.Sprintf("the recent history has %d runs %v, %d were recorded", len(recent), got, want), desc)
						return
					}
					for i, sf := range recent[1:] {
						if sf.Status.RequestID != olderReq[older-1-i] {
							c.Violate(idx, "forced-order|"+query, fmt.Sprintf("the recent history %v is not newest first", got), desc)
							return
						}
					}
				}
			default:
				if qerr != nil || today == nil {
					c.Violate(idx, "forced-missing|"+query, fmt.Sprintf("run %s was recorded before the query began and %s: the latest status fails with %v", req, when, qerr), desc)
					return
				}
				desc["answer"] = fmt.Sprintf("%s/w%d", today.RequestID, writeID(today))
				if today.RequestID != req {
					c.Violate(idx, "forced-older|"+query, fmt.Sprintf("the latest status is that of run %s, the latest run is %s", today.RequestID, req), desc)
					return
				}
				if id := writeID(today); id != last {
					c.Violate(idx, "forced-stale|"+query, fmt.Sprintf("run %s is returned with write %d, its last acknowledged write is %d", req, id, last), desc)
				}
			}
			c.Sample(desc)
		}()
		c.End(idx)
	}
}

var c06Zone0 = time.Local

func listNames(dir string) map[string]bool {
	m := map[string]bool{}
	es, _ := os.ReadDir(dir)
	for _, e := range es {
		m[e.Name()] = true
	}
	return m
}
