package props

// C16 — at most one run of a DAG file is active at a time.
// Two real `blackdagger start` processes: the first (P1) is held by the ptrace
// supervisor before its k-th watched system call, for EVERY k of its life; the
// second (P2: start, or retry of an earlier run) is launched while P1 is held;
// P1 is released 300 ms after P2's first step began (or after P2 ended).
// Steps are child processes that log BEGIN/END with the run's request id and a
// monotonic clock and take 1.2 s, so a run that wrongly got in is still
// executing when P1 goes on.

import (
	"fmt"
	"os"
	"os/exec"
	"path/filepath"
	"sort"
	"strconv"
	"strings"
	"syscall"
	"time"

	"github.com/ErdemOzgen/blackdagger/internal/dag"
	"github.com/ErdemOzgen/blackdagger/internal/persistence/jsondb"
	"github.com/ErdemOzgen/blackdagger/internal/sock"
	"github.com/ErdemOzgen/blackdagger/verifh/core"
	"github.com/ErdemOzgen/blackdagger/verifh/pgrp"
	"github.com/ErdemOzgen/blackdagger/verifh/gate"
	"github.com/anishathalye/porcupine"
)

// c16step <marker> <step> <sleep-ms>: BEGIN / END lines with request id and time
func c16Step(args []string) int {
	if len(args) < 3 {
		return 9
	}
	ms, _ := strconv.Atoi(args[2])
	req := os.Getenv("DAG_REQUEST_ID")
	line := func(kind string) {
		f, err := os.OpenFile(args[0], os.O_APPEND|os.O_CREATE|os.O_WRONLY, 0644)
		if err == nil {
			fmt.Fprintf(f, "%s %s %s %d\n", kind, req, args[1], time.Now().UnixNano())
			f.Close()
		}
	}
	line("BEGIN")
	time.Sleep(time.Duration(ms) * time.Millisecond)
	line("END")
	return 0
}

func init() { core.Sub["c16step"] = c16Step }

type stepEv struct {
	Kind string
	Req  string
	Step string
	T    int64
}

func readMarker(file string) []stepEv {
	b, err := os.ReadFile(file)
	if err != nil {
		return nil
	}
	var out []stepEv
	for _, l := range strings.Split(strings.TrimSpace(string(b)), "\n") {
		f := strings.Fields(l)
		if len(f) == 4 {
			t, _ := strconv.ParseInt(f[3], 10, 64)
			out = append(out, stepEv{f[0], f[1], f[2], t})
		}
	}
	return out
}

// mutexModel: a run may hold the DAG only when no other run holds it.
var mutexModel = porcupine.Model{
	Init: func() any { return "" },
	Step: func(state, in, out any) (bool, any) {
		s := state.(string)
		op := in.(string)
		who := op[strings.Index(op, ":")+1:]
		if strings.HasPrefix(op, "acquire:") {
			if s != "" {
				return false, s
			}
			return true, who
		}
		if s != who {
			return false, s
		}
		return true, ""
	},
	DescribeOperation: func(in, out any) string { return in.(string) },
}

// heldHistory turns step events into acquire/release operations per run
// (acquire = first BEGIN, release = last END) and checks them against the mutex model.
func heldHistory(evs []stepEv) (porcupine.CheckResult, [][2]int64, []string) {
	first, last := map[string]int64{}, map[string]int64{}
	var reqs []string
	for _, e := range evs {
		if _, ok := first[e.Req]; !ok {
			first[e.Req] = e.T
			reqs = append(reqs, e.Req)
		}
		if e.T > last[e.Req] {
			last[e.Req] = e.T
		}
	}
	sort.Strings(reqs)
	var ops []porcupine.Operation
	var iv [][2]int64
	for i, r := range reqs {
		iv = append(iv, [2]int64{first[r], last[r]})
		// an acquire takes effect at its instant; a release likewise: model each
		// as a zero-length operation so that overlap of the held intervals is illegal
		ops = append(ops, porcupine.Operation{ClientId: i, Input: "acquire:" + r, Call: first[r], Output: nil, Return: first[r]})
		ops = append(ops, porcupine.Operation{ClientId: i, Input: "release:" + r, Call: last[r], Output: nil, Return: last[r]})
	}
	res := porcupine.CheckOperationsTimeout(mutexModel, ops, 20*time.Second)
	return res, iv, reqs
}

func c16Dag(h *bdHome, self string, nsteps int, handler bool) (loc, marker string) {
	loc = filepath.Join(h.dags, "one.yaml")
	marker = filepath.Join(h.root, "marker.txt")
	var b strings.Builder
	b.WriteString("histRetentionDays: 1\n")
	if handler {
		fmt.Fprintf(&b, "handlerOn:\n  exit:\n    command: %s\n", yq(fmt.Sprintf("%s c16step %s onexit 300", self, marker)))
	}
	b.WriteString("steps:\n")
	for i := 1; i <= nsteps; i++ {
		fmt.Fprintf(&b, "  - name: s%d\n    command: %s\n", i, yq(fmt.Sprintf("%s c16step %s s%d 1200", self, marker, i)))
		if i > 1 {
			fmt.Fprintf(&b, "    depends: [s%d]\n", i-1)
		}
	}
	_ = os.WriteFile(loc, []byte(b.String()), 0644)
	return
}

func c16Watch(h *bdHome) []string {
	return []string{h.data, h.logs, "/tmp/@blackdagger-one-"}
}

func c16Body(c *core.Ctx) {
	if c.Mode == "storm" {
		c16Storm(c)
		return
	}
	if gate.Sysgate() == "" {
		c.Inconclusive("sysgate not built")
		return
	}
	self, _ := os.Executable()
	type variant struct {
		p2      string // start | retry
		steps   int
		handler bool
		delayMs int
	}
	variants := []variant{{"start", 2, true, 300}}
	if !c.Quick() {
		variants = append(variants, variant{"retry", 2, true, 300}, variant{"start", 1, false, 50}, variant{"start", 3, true, 900}, variant{"retry", 1, false, 300})
	}
	idx := 0
	for vi, v := range variants {
		// count: P1 alone
		h0, err := newBDHome(c, "c16c-")
		if err != nil {
			c.Inconclusive(err.Error())
			return
		}
		loc0, _ := c16Dag(h0, self, v.steps, v.handler)
		res, err := gate.Run(gate.Opts{Watch: c16Watch(h0), Env: h0.env(), Dir: h0.root, Timeout: 120 * time.Second}, c.Scratch, h0.bin, "start", loc0)
		os.RemoveAll(h0.root)
		if err != nil || res.TimedOut || res.ExitCode != 0 {
			c.Inconclusive(fmt.Sprintf("c16: counting run of start failed: %v %+v", err, res))
			return
		}
		N := len(res.Events)
		if c.Shard == 0 {
			c.Count("watched_syscalls_of_a_start", int64(N))
			for _, ev := range res.Events {
				c.SetAdd("pause_point_labels", ev.Label())
			}
		}
		for k := 1; k <= N+1; k++ {
			if !c.Mine(idx) {
				idx++
				continue
			}
			label := "after-exit"
			if k <= N {
				label = res.Events[k-1].Label()
			}
			desc := map[string]any{"variant": v, "pause_before_call": k, "of": N, "label": label}
			c.Begin(idx, desc)
			c16Trial(c, idx, self, vi, v.p2, v.steps, v.handler, v.delayMs, k, N, label, desc)
			c.End(idx)
			idx++
		}
	}
}

func c16Trial(c *core.Ctx, idx int, self string, vi int, p2kind string, nsteps int, handler bool, delayMs, k, N int, label string, desc map[string]any) {
	h, err := newBDHome(c, "c16-")
	if err != nil {
		c.Inconclusive(err.Error())
		return
	}
	defer os.RemoveAll(h.root)
	loc, marker := c16Dag(h, self, nsteps, handler)
	var retryReq string
	if p2kind == "retry" {
		// an earlier, failed-free run to retry: run once, remember its id
		_, _, _ = h.run(60*time.Second, "start", loc)
		retryReq = h.lastRequestID(loc)
		os.Remove(marker)
		if retryReq == "" {
			c.Inconclusive("c16: no earlier run to retry")
			return
		}
	}
	filesBefore, _ := filepath.Glob(filepath.Join(h.data, "*", "*.dat"))
	c.Eval(1)
	var p1 *gate.Paused
	paused := false
	if k <= N {
		p1, err = gate.StartPaused(gate.Opts{Watch: c16Watch(h), Env: h.env(), Dir: h.root}, k, c.Scratch, h.bin, "start", loc)
		if err != nil {
			c.Inconclusive("c16: cannot start P1: " + err.Error())
			return
		}
		_, paused = p1.WaitPaused(60 * time.Second)
	} else {
		// P2 after P1 has ended completely: must simply run
		_, _, _ = h.run(60*time.Second, "start", loc)
	}
	if paused {
		c.Count("p1_held", 1)
		// the active run has been going on for longer than the DAG's history retention
		// (1 day): a start that is refused must not prune the active run's own record
		files, _ := filepath.Glob(filepath.Join(h.data, "*", "*.dat"))
		old := time.Now().Add(-48 * time.Hour)
		nEnd := 0
		for _, e := range readMarker(marker) {
			if e.Kind == "END" {
				nEnd++
			}
		}
		total := nsteps
		if handler {
			total++
		}
		if nEnd >= total {
			files = nil // the first run has done all its work: it may legitimately be over and pruned
		}
		for _, f := range files {
			if retryReq == "" || !strings.Contains(f, retryReq[:8]) {
				_ = os.Chtimes(f, old, old)
				c.Count("active_run_files_backdated", 1)
			}
		}
	}
	nBefore := len(readMarker(marker))
	// P2: the same file, in a third of the trials under another spelling of its path, and in a
	// third after the file has been saved with a different name: attribute while P1 runs
	loc2 := loc
	switch k % 6 {
	case 1:
		loc2 = filepath.Dir(loc) + "//" + filepath.Base(loc)
	case 3:
		loc2 = filepath.Dir(loc) + "/./" + filepath.Base(loc)
	case 5:
		if rel, err := filepath.Rel(h.root, loc); err == nil {
			loc2 = rel // P2 is started in h.root
		}
	}
	if loc2 != loc {
		c.Count("second_starts_under_another_spelling_of_the_path", 1)
		desc["second_start_path"] = loc2
	}
	if k%3 == 2 {
		if b, err := os.ReadFile(loc); err == nil {
			tmp := loc + ".edit"
			_ = os.WriteFile(tmp, append([]byte("name: renamed-while-running\n"), b...), 0644)
			_ = os.Rename(tmp, loc)
			c.Count("definitions_saved_with_another_name_while_running", 1)
			desc["definition_edited_while_running"] = "name: renamed-while-running"
		}
	}
	args := []string{"start", loc2}
	if p2kind == "retry" {
		args = []string{"retry", "--req=" + retryReq, loc2}
	}
	p2 := exec.Command(h.bin, args...)
	p2.Env = h.env()
	p2.Dir = h.root
	p2.SysProcAttr = &syscall.SysProcAttr{Setpgid: true}
	var p2out strings.Builder
	p2.Stdout, p2.Stderr = &p2out, &p2out
	if err := p2.Start(); err != nil {
		c.Inconclusive("c16: cannot start P2: " + err.Error())
		return
	}
	p2grp := pgrp.Open(p2.Process.Pid)
	defer p2grp.Close()
	p2done := make(chan struct{})
	go func() { _ = p2.Wait(); close(p2done) }()
	// wait until P2 began a step or ended
	p2began := false
	deadline := time.Now().Add(30 * time.Second)
wait:
	for time.Now().Before(deadline) {
		select {
		case <-p2done:
			break wait
		default:
		}
		if len(readMarker(marker)) > nBefore {
			p2began = true
			break
		}
		time.Sleep(10 * time.Millisecond)
	}
	if p2began {
		time.Sleep(time.Duration(delayMs) * time.Millisecond)
	}
	p1exit, p1out := 0, ""
	statusAnswered, statusAsked := false, false
	if p1 != nil {
		p1.Resume()
		// P2 refused and P1 running again: its status endpoint must answer while its steps run
		if !p2began {
			for i := 0; i < 300; i++ {
				evs := readMarker(marker)
				if len(evs) > nBefore { // P1 executes steps now
					statusAsked = true
					if _, err := sock.NewClient("/tmp/"+sockName(loc)).Request("GET", "/status"); err == nil {
						statusAnswered = true
					}
					break
				}
				time.Sleep(20 * time.Millisecond)
			}
		}
		var to bool
		p1exit, p1out, to = p1.Wait(120 * time.Second)
		if to {
			c.Violate(idx, "p1-hung|"+label, "the first run did not end within 120 s after a second start had been issued while it was held before call "+label, desc)
			p2grp.Kill()
			return
		}
	}
	select {
	case <-p2done:
	case <-time.After(120 * time.Second):
		p2grp.Kill()
		<-p2done
		c.Violate(idx, "p2-hung|"+label, "the second start did not end within 120 s", desc)
		return
	}
	p2exit := p2.ProcessState.ExitCode()
	evs := readMarker(marker)
	desc["p1_exit"], desc["p2_exit"], desc["p2_began_a_step_before_p1_was_released"] = p1exit, p2exit, p2began
	var lines []string
	t0 := int64(0)
	for i, e := range evs {
		if i == 0 {
			t0 = e.T
		}
		lines = append(lines, fmt.Sprintf("%s %s %s +%dms", e.Kind, clip(e.Req, 8), e.Step, (e.T-t0)/1e6))
	}
	desc["step_events"] = lines
	c.Count("obligations", 1)
	// (1) the held intervals of different runs must not overlap
	res, iv, reqs := heldHistory(evs)
	switch res {
	case porcupine.Illegal:
		where := "listening"
		if strings.Contains(label, "sock") || k < N/2 {
			where = label
		}
		_ = iv
		c.Violate(idx, "both-ran|p2="+p2kind+"|"+where, fmt.Sprintf("two runs of the same DAG file executed steps at the same time (runs %v; the first start was held before its call %d/%d %s): %v", reqs, k, N, label, lines), desc)
	case porcupine.Unknown:
		c.Inconclusive("c16: history check timed out")
	}
	c.SetAdd("outcomes", fmt.Sprintf("p1=%d p2=%d runs=%d", p1exit, p2exit, len(reqs)))
	// (2)/(3) a refused P2 executed nothing, recorded nothing and did not disturb P1
	p2ran := false
	for _, r := range reqs {
		_ = r
	}
	filesAfter, _ := filepath.Glob(filepath.Join(h.data, "*", "*.dat"))
	newFiles := len(filesAfter) - len(filesBefore)
	if p2exit != 0 && !p2began {
		c.Count("p2_refused", 1)
		c.Count("obligations", 3)
		if len(reqs) > 1 {
			p2ran = true
			c.Violate(idx, "refused-but-ran|"+label, fmt.Sprintf("the second start exited with status %d but steps of two runs were executed: %v", p2exit, lines), desc)
		}
		if newFiles > 1 {
			c.Violate(idx, "refused-but-recorded|"+label, fmt.Sprintf("the refused second start left a history record (%d new run files)", newFiles), desc)
		}
		if p1 != nil {
			if p1exit != 0 {
				c.Violate(idx, "first-run-disturbed|exit|"+label, fmt.Sprintf("the first run ended with status %d after a second start had been refused: %s", p1exit, clip(p1out, 400)), desc)
			}
			n1 := 0
			for _, e := range evs {
				if e.Kind == "END" {
					n1++
				}
			}
			want := nsteps
			if handler {
				want++
			}
			if n1 != want {
				c.Violate(idx, "first-run-disturbed|steps|"+label, fmt.Sprintf("the first run completed %d of its %d steps/handlers after a second start had been refused", n1, want), desc)
			}
			if statusAsked && !statusAnswered {
				c.Violate(idx, "first-run-disturbed|status|"+label, "the first run's status endpoint did not answer while its steps were running after a second start had been refused", desc)
			}
			if statusAsked {
				c.Count("status_queries_of_p1", 1)
			}
		}
	} else {
		c.Count("p2_ran", 1)
	}
	_ = p2ran
	// history stays intact: every run that executed steps can be read back
	db := jsondb.New(h.data, false)
	for _, r := range reqs {
		c.Count("obligations", 1)
		if sf, err := db.FindByRequestID(loc, r); err != nil || sf.Status == nil {
			c.Violate(idx, "history-lost|"+label, fmt.Sprintf("run %s executed steps but its history cannot be read back: %v", r, err), desc)
		}
	}
	c.Sig(vi, k)
	if k%9 == 0 {
		c.Sample(desc)
	}
}

func sockName(loc string) string {
	// dag.SockAddr without loading the file
	return filepath.Base((&dag.DAG{Location: loc}).SockAddr())
}

func init() {
	core.Register(&core.Prop{ID: "C16", Level: "fault_enumeration", Body: c16Body, CrashKey: crashKeyGeneric, MinDistinct: 20,
		Passes: func(tier string) []core.Pass {
			return []core.Pass{{Name: "main", Mode: "pause", Shards: 16, Timeout: 60 * time.Minute},
				{Name: "storm", Mode: "storm", Shards: 16, Timeout: 60 * time.Minute}}
		},
		Exhaustive:  func(tier string) bool { return true },
		Rule:        "Real `blackdagger start` (built from /repo) of a 2-step DAG with an exit handler; its watched system calls under the data directory, the log directory and its unix socket are numbered by the ptrace supervisor (about 50: log file, probe connect, history open/write, unlink+bind+listen of the socket, per-step log and status writes, socket teardown, compaction) and EVERY position k is used once: the first start is held before call k, a second `blackdagger start` (thorough: also `retry --req` of an earlier run, 1- and 3-step DAGs, release delays 50/300/900 ms) is launched while it is held, the first is released 300 ms after the second's first step began or after the second ended; plus the position after the first run has ended. Steps are child processes logging BEGIN/END with the run's request id and a monotonic clock (1.2 s each). Oracle: the history acquire(run)=first BEGIN / release(run)=last END is checked against a mutex model with porcupine (Illegal = two runs executed steps at the same time); a second start that exits non-zero must have executed nothing and recorded nothing, and the first run must then exit 0, complete all its steps and handler, and answer GET /status while its steps run; every run that executed steps is readable from the history. Two runs that do not overlap (the first was held before it had done anything) are legal. exhaustive=true refers to the enumeration of the first start's system-call positions. Non-trivial/distinct = (variant, k). Storm pass: 64 (640) rounds in which eight starters loop over 40 starts each of one DAG file with an 8 ms step (about 2 000 admitted runs per quick check): runs end and begin while other starters are anywhere in their admission sequence - interleavings of three and more processes that holding one process cannot make; same oracle (intervals of step execution per run never overlap, porcupine mutex model); nothing is decided by the harness here, so a change that needs one exact three-process order is found with a probability per check, not with certainty.",
		Assumptions: []string{"while the supervisor holds the first process all its threads are stopped at their next system call (like a stopped process); its status endpoint is not asked then"}})
}
