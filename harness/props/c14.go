package props

import (
	"fmt"
	"math/rand"
	"os"
	"path/filepath"
	"sync"
	"sync/atomic"
	"time"

	"github.com/ErdemOzgen/blackdagger/internal/dag"
	"github.com/ErdemOzgen/blackdagger/internal/dag/scheduler"
	"github.com/ErdemOzgen/blackdagger/internal/logger"
	"github.com/ErdemOzgen/blackdagger/verifh/core"
	"github.com/ErdemOzgen/blackdagger/verifh/vexec"
)

var c14Logger = logger.NewLogger(logger.NewLoggerArgs{Quiet: true})

// wellFormed is the independent reference: every name resolves and an
// iterative three-colour DFS finds no cycle (self-loops included).
func wellFormed(names []string, deps map[string][]string) bool {
	idx := map[string]int{}
	for i, n := range names {
		idx[n] = i
	}
	adj := make([][]int, len(names))
	for n, ds := range deps {
		for _, d := range ds {
			j, ok := idx[d]
			if !ok {
				return false
			}
			adj[j] = append(adj[j], idx[n]) // edge dep -> dependent
		}
	}
	color := make([]int, len(names))
	for s := range names {
		if color[s] != 0 {
			continue
		}
		type fr struct{ v, i int }
		st := []fr{{s, 0}}
		color[s] = 1
		for len(st) > 0 {
			f := &st[len(st)-1]
			if f.i < len(adj[f.v]) {
				w := adj[f.v][f.i]
				f.i++
				if color[w] == 1 {
					return false
				}
				if color[w] == 0 {
					color[w] = 1
					st = append(st, fr{w, 0})
				}
			} else {
				color[f.v] = 2
				st = st[:len(st)-1]
			}
		}
	}
	return true
}

func c14Steps(names []string, deps map[string][]string, order []int) []dag.Step {
	steps := make([]dag.Step, 0, len(names))
	for _, i := range order {
		n := names[i]
		steps = append(steps, dag.Step{Name: n, Depends: append([]string(nil), deps[n]...)})
	}
	return steps
}

func c14Check(c *core.Ctx, idx int, names []string, deps map[string][]string, order []int, desc func() any) bool {
	steps := c14Steps(names, deps, order)
	_, err := scheduler.NewExecutionGraph(c14Logger, steps...)
	want := wellFormed(names, deps)
	c.Eval(1)
	c.Count("obligations", 1)
	if want {
		c.Count("admitted", 1)
	} else {
		c.Count("refused_expected", 1)
	}
	if (err == nil) != want {
		key := "admitted-malformed"
		if want {
			key = "refused-wellformed"
		}
		c.Violate(idx, key, fmt.Sprintf("NewExecutionGraph returned err=%v but the independent check says wellFormed=%v for %v", err, want, desc()), desc())
		return false
	}
	// the retry path admits recorded steps through its own constructor
	if len(names) <= 4 || c14Counter.Add(1)%16 == 0 {
		nodes := make([]*scheduler.Node, 0, len(steps))
		for i, st := range steps {
			status := []scheduler.NodeStatus{scheduler.NodeStatusSuccess, scheduler.NodeStatusError, scheduler.NodeStatusCancel, scheduler.NodeStatusSkipped}[(i+len(steps))%4]
			nodes = append(nodes, scheduler.NewNode(st, scheduler.NodeState{Status: status}))
		}
		_, rerr := scheduler.NewExecutionGraphForRetry(c14Logger, nodes...)
		c.Count("obligations", 1)
		c.Count("retry_constructor_checked", 1)
		if (rerr == nil) != want {
			key := "retry-admitted-malformed"
			if want {
				key = "retry-refused-wellformed"
			}
			c.Violate(idx, key, fmt.Sprintf("NewExecutionGraphForRetry (the retry path) returned err=%v but the independent check says wellFormed=%v for %v", rerr, want, desc()), desc())
			return false
		}
	}
	return true
}

var c14Counter atomic.Int64

// c14Concurrent: graphs are admitted by several goroutines at once (the web
// server builds a graph per status request): admission must depend on the
// graph alone.
func c14Concurrent(c *core.Ctx) {
	rounds := c.Pick(15000, 100000)
	if c.Race {
		rounds = c.Pick(1500, 20000)
	}
	var wg sync.WaitGroup
	for w := 0; w < 12; w++ {
		if !c.Mine(w) {
			continue
		}
		wg.Add(1)
		go func(w int) {
			defer wg.Done()
			r := c.Rand("concurrent", w)
			for i := 0; i < rounds; i++ {
				names, deps, kind := c14Random(r)
				if len(names) > 12 {
					continue
				}
				c14Check(c, (1<<24)+w, names, deps, r.Perm(len(names)), func() any {
					return map[string]any{"kind": kind, "names": names, "depends": deps, "concurrent_worker": w}
				})
			}
		}(w)
	}
	wg.Wait()
	c.DistinctAdd(int64(rounds))
}

func c14Body(c *core.Ctx) {
	if c.Mode == "concurrent" {
		c14Concurrent(c)
		return
	}
	vexec.Init()
	idx := 0
	// exhaustive: every edge set incl. self-loops on 1..4 steps; thorough: + all loop-free edge sets on 5
	for n := 1; n <= 5; n++ {
		names := make([]string, n)
		for i := range names {
			names[i] = stepName(i)
		}
		var pairs [][2]int
		for i := 0; i < n; i++ {
			for j := 0; j < n; j++ {
				if n == 5 && i == j && c.Quick() {
					continue // quick: loop-free edge sets on 5 steps (2^20); thorough: all 2^25
				}
				pairs = append(pairs, [2]int{i, j}) // j depends on i
			}
		}
		total := 1 << len(pairs)
		chunk := 16384
		for base := 0; base < total; base += chunk {
			if !c.Mine(idx) {
				idx++
				continue
			}
			c.Begin(idx, map[string]any{"n": n, "from_mask": base})
			r := c.Rand("order", idx)
			for m := base; m < base+chunk && m < total; m++ {
				deps := map[string][]string{}
				for b, p := range pairs {
					if m&(1<<b) != 0 {
						deps[names[p[1]]] = append(deps[names[p[1]]], names[p[0]])
					}
				}
				order := r.Perm(n)
				mm := m
				c14Check(c, idx, names, deps, order, func() any {
					return map[string]any{"steps": n, "edge_mask": mm, "depends": deps, "declaration_order": order}
				})
				if m%50021 == 7 {
					c.Sample(map[string]any{"steps": n, "edge_mask": m, "depends": deps, "declaration_order": order, "wellFormed": wellFormed(names, deps)})
				}
			}
			hi := base + chunk
			if hi > total {
				hi = total
			}
			c.DistinctAdd(int64(hi - base))
			c.Count(fmt.Sprintf("enumerated_n%d", n), int64(hi-base))
			c.End(idx)
			idx++
		}
	}
	idx = 1 << 22
	// random graphs up to 40 steps with planted cycles / dangling names
	nr := c.Pick(40000, 600000)
	for i := 0; i < nr; i++ {
		if c.Mine(idx) {
			r := c.Rand("rand", idx)
			names, deps, kind := c14Random(r)
			c.SetAdd("random_kinds", kind)
			c14Check(c, idx, names, deps, r.Perm(len(names)), func() any {
				return map[string]any{"kind": kind, "names": names, "depends": deps}
			})
			c.Sig("rand", kind, fmt.Sprint(names), fmt.Sprint(deps))
		}
		idx++
	}
	// agent level: refused graphs must leave no trace
	idx = 1 << 23
	na := c.Pick(64, 1500)
	for i := 0; i < na; i++ {
		if c.Mine(idx) {
			r := c.Rand("agent", idx)
			var names []string
			var deps map[string][]string
			kind := ""
			for {
				names, deps, kind = c14Random(r)
				if len(names) <= 8 && !wellFormed(names, deps) {
					break
				}
			}
			spec := &vexec.CaseSpec{ID: fmt.Sprintf("C14_a%d", idx), Level: "agent",
				Handlers: map[string]*vexec.HandlerSpec{"onExit": {}, "onFailure": {}}}
			for _, n := range names {
				spec.Steps = append(spec.Steps, &vexec.StepSpec{Name: n, Depends: deps[n]})
			}
			c.Begin(idx, spec)
			out := vexec.Run(spec, &vexec.RunOpts{Scratch: c.Scratch, KeepDirs: true})
			c.Eval(1)
			c.Count("agent_refusals", 1)
			c.Count("obligations", 4)
			switch {
			case out.Inconclusive != "":
				c.Inconclusive(fmt.Sprintf("agent case %d: %s", idx, out.Inconclusive))
			case out.SetupErr != "":
				// the loader itself refused the definition: also a refusal before anything ran
				c.Count("agent_refused_by_loader", 1)
			default:
				nEnter := 0
				for _, e := range out.Events {
					if e.Kind == "RUN_ENTER" {
						nEnter++
					}
				}
				if out.RunErr == "" {
					c.Violate(idx, "agent-ran-malformed", fmt.Sprintf("Agent.Run returned no error for a malformed graph (%s)", kind), spec)
				}
				if nEnter > 0 || out.Creates > 0 {
					c.Violate(idx, "agent-executed", fmt.Sprintf("refused run produced %d Run() calls / %d executors", nEnter, out.Creates), spec)
				}
				files := 0
				_ = filepath.Walk(out.DataDir, func(p string, info os.FileInfo, err error) error {
					if err == nil && !info.IsDir() {
						files++
					}
					return nil
				})
				if files > 0 {
					c.Violate(idx, "agent-recorded", fmt.Sprintf("refused run left %d history file(s)", files), spec)
				}
				if out.DAG != nil {
					if _, err := os.Stat(out.DAG.SockAddr()); err == nil {
						c.Violate(idx, "agent-socket", "refused run left its status socket behind", spec)
					}
				}
				c.Sig("agent", kind, ShapeSig(spec))
				if i < 2 {
					c.Sample(map[string]any{"agent_case": spec, "run_error": out.RunErr, "history_files": files})
				}
			}
			if out.DataDir != "" {
				_ = os.RemoveAll(filepath.Dir(out.DataDir))
			}
			c.End(idx)
		}
		idx++
	}
}

func c14Random(r *rand.Rand) ([]string, map[string][]string, string) {
	n := 2 + r.Intn(39)
	if r.Intn(3) == 0 {
		n = 2 + r.Intn(6)
	}
	names := make([]string, n)
	for i := range names {
		names[i] = fmt.Sprintf("t%d", i)
	}
	deps := map[string][]string{}
	// random forward edges (acyclic base)
	dens := 1 + r.Intn(25)
	for j := 1; j < n; j++ {
		for i := 0; i < j; i++ {
			if r.Intn(100) < dens {
				deps[names[j]] = append(deps[names[j]], names[i])
			}
		}
	}
	kind := "acyclic"
	switch r.Intn(7) {
	case 0: // self loop
		k := r.Intn(n)
		deps[names[k]] = append(deps[names[k]], names[k])
		kind = "self-loop"
	case 1: // back edge closing a chain: cycle + tail
		if n >= 3 {
			a := r.Intn(n - 2)
			b := a + 1 + r.Intn(n-a-1)
			// make sure a chain a -> ... -> b exists, then add b -> a
			for k := a + 1; k <= b; k++ {
				deps[names[k]] = append(deps[names[k]], names[k-1])
			}
			deps[names[a]] = append(deps[names[a]], names[b])
			kind = "cycle-with-tail"
		}
	case 2: // two disjoint 2-cycles
		if n >= 4 {
			deps[names[0]] = append(deps[names[0]], names[1])
			deps[names[1]] = append(deps[names[1]], names[0])
			deps[names[n-1]] = append(deps[names[n-1]], names[n-2])
			deps[names[n-2]] = append(deps[names[n-2]], names[n-1])
			kind = "two-cycles"
		}
	case 3: // dangling name
		k := r.Intn(n)
		deps[names[k]] = append(deps[names[k]], []string{"ghost", "", " t0", "T0", "t0 "}[r.Intn(5)])
		kind = "dangling"
	case 4: // cycle reachable only from a source
		if n >= 4 {
			deps[names[2]] = append(deps[names[2]], names[3])
			deps[names[3]] = append(deps[names[3]], names[2])
			deps[names[2]] = append(deps[names[2]], names[0])
			kind = "cycle-behind-source"
		}
	case 5: // duplicate edges (still acyclic)
		for k := range deps {
			if len(deps[k]) > 0 {
				deps[k] = append(deps[k], deps[k][0])
				break
			}
		}
		kind = "duplicate-edge"
	}
	return names, deps, kind
}

func init() {
	// the node-id counter is the state every graph constructor shares across goroutines
	core.RaceGate["C14"] = []string{"scheduler.getNextNodeID", "scheduler.(*Node).init"}
	core.Register(&core.Prop{ID: "C14", Level: "exploration", Body: c14Body, CrashKey: crashKeyGeneric, MinDistinct: 1000,
		Passes: func(tier string) []core.Pass {
			return []core.Pass{{Name: "main", Mode: "controlled", Shards: 16, Timeout: 40 * time.Minute},
				{Name: "concurrent", Mode: "concurrent", Shards: 1, Timeout: 40 * time.Minute},
				{Name: "concurrent-race", Mode: "concurrent", Race: true, Shards: 1, Timeout: 40 * time.Minute}}
		},
		Exhaustive:  func(tier string) bool { return true },
		Rule:        "Enumerated completely (exhaustive=true for this part): every edge set INCLUDING self-loops on 1..4 named steps (2+16+512+65536 graphs) and all 2^20 loop-free edge sets on 5 steps; thorough enumerates all 2^25 edge sets (self-loops included) on 5 steps. Each graph's steps are declared in a PRNG permutation so that map-iteration order inside the implementation varies. Plus random graphs of 2..40 steps with planted defects (self-loop, cycle with tail, two disjoint cycles, cycle behind a source, dangling names incl. near-miss spellings, duplicate edges). Oracle: scheduler.NewExecutionGraph(...) == nil error — and, for every graph up to 4 steps and every 16th larger one, scheduler.NewExecutionGraphForRetry(recorded nodes) == nil error (the retry path) — iff an independent iterative DFS says every name resolves and there is no cycle. Agent part: malformed graphs go through the real loader and Agent.Run: the run must return an error, the scripted executor must see no creator/Run() call (steps and handlers), the history directory must stay empty and no socket file may remain. Concurrent passes (plain and under the race detector): 12 goroutines admit random graphs at the same time, same oracle. distinct_nontrivial counts enumerated graphs (pairwise distinct by construction) + distinct random/agent cases.",
		Assumptions: []string{"step names are distinct (hypothesis of the statement)", "graphs above 5 steps are sampled, not enumerated"}})
}
