package props

// C19, concurrent pass: "viewing while steps start".  Non-executing entry points (validation,
// detail view, listing, the API's GET handlers) run in goroutines of the SAME process in which
// the step scheduler launches command steps (whose node set-up splits the command line and
// EVALUATES command substitutions) — as in an agent that looks up a sub-workflow while its other
// steps start.  The planted definitions are never started; the canary must never appear.

import (
	"context"
	"fmt"
	"net/http/httptest"
	"os"
	"path/filepath"
	"strings"
	"sync"
	"sync/atomic"
	"time"

	"github.com/ErdemOzgen/blackdagger/internal/dag"
	dagsched "github.com/ErdemOzgen/blackdagger/internal/dag/scheduler"
	"github.com/ErdemOzgen/blackdagger/verifh/apih"
	"github.com/ErdemOzgen/blackdagger/verifh/core"
)

func c19ConcBody(c *core.Ctx) {
	n := c.Pick(64, 600)
	plants := []struct{ name, text string }{
		{"step-command-backtick", "steps:\n  - name: s\n    command: \"echo `touch CANARY`\"\n"},
		{"step-command-dollar-paren", "steps:\n  - name: s\n    command: \"echo $(touch CANARY)\"\n"},
		{"step-command-list", "steps:\n  - name: s\n    command: [\"echo\", \"`touch CANARY`\"]\n"},
		{"handler-command", "handlerOn:\n  exit:\n    command: \"echo `touch CANARY`\"\nsteps:\n  - name: s\n    command: \"true\"\n"},
		{"step-command-quoted-arg", "steps:\n  - name: s\n    command: \"sh -c 'echo `touch CANARY`'\"\n"},
		{"sub-workflow-params", "steps:\n  - name: s\n    run: other\n    params: \"A=`touch CANARY`\"\n"},
	}
	for idx := 0; idx < n; idx++ {
		if !c.Mine(idx) {
			continue
		}
		pl := plants[idx%len(plants)]
		root, err := os.MkdirTemp(c.Scratch, "c19c-")
		if err != nil {
			c.Inconclusive("mkdtemp")
			return
		}
		canary := filepath.Join(root, "canary")
		text := strings.ReplaceAll(pl.text, "CANARY", canary)
		empty := filepath.Join(root, "cwd")
		_ = os.MkdirAll(empty, 0755)
		_ = os.Chdir(empty)
		env, err := apih.New(root, "/bin/false", apih.Auth{}, false)
		if err != nil {
			c.Inconclusive("apih: " + err.Error())
			os.RemoveAll(root)
			return
		}
		file := filepath.Join(env.DAGs, "planted.yaml")
		_ = os.WriteFile(file, []byte(text), 0644)
		_ = os.WriteFile(filepath.Join(env.DAGs, "other.yaml"), []byte("steps:\n  - name: o\n    command: \"true\"\n"), 0644)
		desc := map[string]any{"plant": pl.name, "text": text}
		c.Begin(idx, desc)
		c.Eval(1)
		var stop atomic.Bool
		var wg sync.WaitGroup
		var launched atomic.Int64
		// the executing side: real scheduler runs of benign command steps with substitutions of their own
		for w := 0; w < 3; w++ {
			wg.Add(1)
			go func(w int) {
				defer wg.Done()
				logDir := filepath.Join(root, fmt.Sprintf("logs%d", w))
				_ = os.MkdirAll(logDir, 0755)
				for k := 0; !stop.Load(); k++ {
					var steps []dag.Step
					for i := 0; i < 6; i++ {
						steps = append(steps, dag.Step{Name: fmt.Sprintf("r%d", i), Dir: root, Command: "true", CmdWithArgs: fmt.Sprintf("true `echo %d` \"a b\" $(echo x)", i)})
					}
					g, err := dagsched.NewExecutionGraph(c13Logger, steps...)
					if err != nil {
						return
					}
					sc := dagsched.New(&dagsched.Config{LogDir: logDir, Logger: c13Logger, ReqID: fmt.Sprintf("r%d-%d", w, k)})
					sc.VerifSetPause(200 * time.Microsecond)
					d := &dag.DAG{Name: "runner", Location: filepath.Join(root, "runner.yaml")}
					ctx := dag.NewContext(context.Background(), d, nil, "r", filepath.Join(root, "sched.log"))
					_ = sc.Schedule(ctx, g, nil)
					launched.Add(int64(len(steps)))
					os.RemoveAll(logDir)
					_ = os.MkdirAll(logDir, 0755)
				}
			}(w)
		}
		// the viewing side
		views := c.Pick(300, 800)
		var viewed atomic.Int64
		var vwg sync.WaitGroup
		get := func(path string) {
			rec := httptest.NewRecorder()
			env.Handler.ServeHTTP(rec, httptest.NewRequest("GET", path, nil))
		}
		entries := []func(){
			func() { _, _ = dag.LoadYAML([]byte(text)) },
			func() { _, _ = dag.LoadWithoutEval(file) },
			func() { _, _ = dag.LoadMetadata(file) },
			func() { _, _ = env.Client.GetStatus("planted") },
			func() { get("/api/v1/dags/planted?tab=spec") },
			func() { get("/api/v1/dags") },
			func() { _, _ = env.Stores.DAGStore().Find("planted") },
		}
		for v := 0; v < 4; v++ {
			vwg.Add(1)
			go func(v int) {
				defer vwg.Done()
				for k := 0; k < views; k++ {
					func() {
						defer func() { _ = recover() }()
						entries[(k+v)%len(entries)]()
					}()
					viewed.Add(1)
				}
			}(v)
		}
		vwg.Wait()
		stop.Store(true)
		wg.Wait()
		c.Count("obligations", 1)
		c.Count("non_executing_calls", viewed.Load())
		c.Count("steps_launched_meanwhile", launched.Load())
		if launched.Load() == 0 {
			c.Inconclusive("c19 concurrent: no step was launched while viewing")
		}
		if _, err := os.Stat(canary); err == nil {
			c.Violate(idx, "exec-while-steps-start|"+pl.name, fmt.Sprintf("a command planted in a definition that was only validated / viewed / listed (%d calls) was executed while the scheduler was launching steps of another DAG in the same process (%d launched): the canary file was created", viewed.Load(), launched.Load()), desc)
		}
		c.Sig("conc", idx, pl.name)
		os.RemoveAll(root)
		c.End(idx)
	}
}
