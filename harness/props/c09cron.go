package props

// Independent evaluator of the standard 5-field cron grammar, used as the
// reference for C09.  It shares nothing with robfig/cron: it parses the fields
// itself and answers "does minute t match" directly on the UTC calendar,
// never by searching for a next activation time.

import (
	"fmt"
	"math/rand"
	"strconv"
	"strings"
	"time"
)

type cronField struct {
	set  uint64
	star bool // the field is exactly "*"
}

type cronExpr struct {
	src                      string
	min, hour, dom, mon, dow cronField
}

var cronMonNames = map[string]int{"jan": 1, "feb": 2, "mar": 3, "apr": 4, "may": 5, "jun": 6, "jul": 7, "aug": 8, "sep": 9, "oct": 10, "nov": 11, "dec": 12}
var cronDowNames = map[string]int{"sun": 0, "mon": 1, "tue": 2, "wed": 3, "thu": 4, "fri": 5, "sat": 6}

func cronAtom(s string, names map[string]int) (int, error) {
	if names != nil {
		if v, ok := names[strings.ToLower(s)]; ok {
			return v, nil
		}
	}
	v, err := strconv.Atoi(s)
	if err != nil || v < 0 {
		return 0, fmt.Errorf("bad number %q", s)
	}
	return v, nil
}

func parseCronField(s string, lo, hi int, names map[string]int) (cronField, error) {
	var f cronField
	if s == "" {
		return f, fmt.Errorf("empty field")
	}
	if s == "*" {
		f.star = true
	}
	for _, part := range strings.Split(s, ",") {
		rng, stepS, hasStep := strings.Cut(part, "/")
		step := 1
		if hasStep {
			v, err := strconv.Atoi(stepS)
			if err != nil || v <= 0 {
				return f, fmt.Errorf("bad step %q", part)
			}
			step = v
		}
		var a, b int
		switch {
		case rng == "*":
			a, b = lo, hi
		case strings.Contains(rng, "-"):
			as, bs, _ := strings.Cut(rng, "-")
			var err error
			if a, err = cronAtom(as, names); err != nil {
				return f, err
			}
			if b, err = cronAtom(bs, names); err != nil {
				return f, err
			}
		default:
			var err error
			if a, err = cronAtom(rng, names); err != nil {
				return f, err
			}
			b = a
			if hasStep {
				b = hi // "a/n" means a-max/n
			}
		}
		if a < lo || b > hi || a > b {
			return f, fmt.Errorf("range %q outside %d-%d", part, lo, hi)
		}
		for v := a; v <= b; v += step {
			f.set |= 1 << uint(v)
		}
	}
	return f, nil
}

func parseCron5(s string) (*cronExpr, error) {
	fs := strings.Fields(s)
	if len(fs) != 5 {
		return nil, fmt.Errorf("want 5 fields, got %d", len(fs))
	}
	e := &cronExpr{src: s}
	var err error
	if e.min, err = parseCronField(fs[0], 0, 59, nil); err != nil {
		return nil, err
	}
	if e.hour, err = parseCronField(fs[1], 0, 23, nil); err != nil {
		return nil, err
	}
	if e.dom, err = parseCronField(fs[2], 1, 31, nil); err != nil {
		return nil, err
	}
	if e.mon, err = parseCronField(fs[3], 1, 12, cronMonNames); err != nil {
		return nil, err
	}
	if e.dow, err = parseCronField(fs[4], 0, 6, cronDowNames); err != nil {
		return nil, err
	}
	return e, nil
}

// match reports whether the expression fires in the minute that contains t (UTC).
func (e *cronExpr) match(t time.Time) bool {
	t = t.UTC()
	if e.min.set&(1<<uint(t.Minute())) == 0 || e.hour.set&(1<<uint(t.Hour())) == 0 || e.mon.set&(1<<uint(t.Month())) == 0 {
		return false
	}
	domOK := e.dom.set&(1<<uint(t.Day())) != 0
	dowOK := e.dow.set&(1<<uint(t.Weekday())) != 0
	if e.dom.star || e.dow.star {
		return domOK && dowOK
	}
	return domOK || dowOK // both restricted: day-of-month OR day-of-week
}

// nextMatch scans forward minute by minute inside matching days (used only to
// aim tick windows at interesting minutes; never to decide a verdict).
func (e *cronExpr) nextMatch(from time.Time, maxDays int) (time.Time, bool) {
	t := from.UTC().Truncate(time.Minute)
	end := t.AddDate(0, 0, maxDays)
	for t.Before(end) {
		day := time.Date(t.Year(), t.Month(), t.Day(), 12, 0, 0, 0, time.UTC)
		probe := *e
		probe.min = cronField{set: ^uint64(0)}
		probe.hour = cronField{set: ^uint64(0)}
		if !probe.match(day) {
			t = time.Date(t.Year(), t.Month(), t.Day()+1, 0, 0, 0, 0, time.UTC)
			continue
		}
		dayEnd := time.Date(t.Year(), t.Month(), t.Day()+1, 0, 0, 0, 0, time.UTC)
		for ; t.Before(dayEnd); t = t.Add(time.Minute) {
			if e.match(t) {
				return t, true
			}
		}
	}
	return time.Time{}, false
}

// ---- generator ---------------------------------------------------------------

func pickS(r *rand.Rand, xs ...string) string { return xs[r.Intn(len(xs))] }

func genCronList(r *rand.Rand, lo, hi int, names []string, allowStarStep bool) string {
	atom := func(v int) string {
		if names != nil && r.Intn(3) == 0 {
			n := names[v-lo]
			switch r.Intn(3) {
			case 0:
				return strings.ToUpper(n)
			case 1:
				return strings.ToUpper(n[:1]) + n[1:]
			}
			return n
		}
		return strconv.Itoa(v)
	}
	n := 1 + r.Intn(3)
	var parts []string
	for i := 0; i < n; i++ {
		switch k := r.Intn(6); {
		case k == 0 && allowStarStep:
			parts = append(parts, fmt.Sprintf("*/%d", 1+r.Intn(hi-lo+1)))
			return strings.Join(parts[len(parts)-1:], ",")
		case k == 1:
			a := lo + r.Intn(hi-lo+1)
			b := a + r.Intn(hi-a+1)
			parts = append(parts, atom(a)+"-"+atom(b))
		case k == 2:
			a := lo + r.Intn(hi-lo+1)
			b := a + r.Intn(hi-a+1)
			parts = append(parts, fmt.Sprintf("%s-%s/%d", atom(a), atom(b), 1+r.Intn(7)))
		case k == 3:
			a := lo + r.Intn(hi-lo+1)
			parts = append(parts, fmt.Sprintf("%d/%d", a, 1+r.Intn(9)))
		default:
			parts = append(parts, atom(lo+r.Intn(hi-lo+1)))
		}
	}
	return strings.Join(parts, ",")
}

var cronMonList = []string{"jan", "feb", "mar", "apr", "may", "jun", "jul", "aug", "sep", "oct", "nov", "dec"}
var cronDowList = []string{"sun", "mon", "tue", "wed", "thu", "fri", "sat"}

// genCronExpr draws an expression from the standard grammar. class tells the
// tick planner what kind of window makes it interesting.
func genCronExpr(r *rand.Rand) (expr, class string) {
	switch r.Intn(20) {
	case 0:
		return pickS(r, "0 0 30 2 *", "0 0 31 4 *", "15 3 31 2,4,6,9,11 *", "* * 30,31 feb *", "0 12 31 jun *"), "never"
	case 1:
		return pickS(r, "0 0 29 2 *", "59 23 29 feb *", "*/10 * 29 2 *"), "leapday"
	case 2:
		return pickS(r, "0 0 1 1 *", "59 23 31 12 *", "0 0 1 jan *", "*/15 0 1 1 *", "59 23 31 dec *"), "yearend"
	case 3:
		return pickS(r, "0 0 31 * *", "0 0 28-31 * *", "30 23 30 * *", "0 0 1 * *", "5 0 1 3 *", "59 23 28 2 *", "0 0 31 1,3,5 *"), "monthend"
	case 4, 5:
		// both day fields restricted: day-of-month OR day-of-week
		return fmt.Sprintf("%s %s %s * %s", genCronList(r, 0, 59, nil, true), pickS(r, "*", "*", genCronList(r, 0, 23, nil, true)),
			genCronList(r, 1, 31, nil, false), genCronList(r, 0, 6, cronDowList, false)), "dom-or-dow"
	case 6:
		return fmt.Sprintf("%s %s * * %s", genCronList(r, 0, 59, nil, true), genCronList(r, 0, 23, nil, true), genCronList(r, 0, 6, cronDowList, true)), "dow"
	case 7:
		return fmt.Sprintf("%s %s %s %s *", genCronList(r, 0, 59, nil, true), genCronList(r, 0, 23, nil, true), genCronList(r, 1, 31, nil, true), genCronList(r, 1, 12, cronMonList, true)), "sparse"
	case 8:
		return "* * * * *", "every-minute"
	case 9, 10:
		return fmt.Sprintf("*/%d * * * *", 1+r.Intn(12)), "minute-step"
	case 11:
		return fmt.Sprintf("%d/%d * * * *", r.Intn(50), 1+r.Intn(20)), "minute-step"
	case 12, 13:
		return fmt.Sprintf("%s * * * *", genCronList(r, 0, 59, nil, true)), "minute-list"
	case 14:
		a := r.Intn(55)
		return fmt.Sprintf("%d-%d * * * *", a, a+r.Intn(59-a)+1), "minute-range"
	case 15:
		return fmt.Sprintf("%s %s * * *", genCronList(r, 0, 59, nil, true), genCronList(r, 0, 23, nil, true)), "hourly"
	case 16:
		return fmt.Sprintf("%d %d * * *", r.Intn(60), r.Intn(24)), "daily"
	case 17:
		return fmt.Sprintf("%s %s * %s *", genCronList(r, 0, 59, nil, true), pickS(r, "*", genCronList(r, 0, 23, nil, true)), genCronList(r, 1, 12, cronMonList, true)), "month"
	case 18:
		return pickS(r, "0 0 * * *", "59 23 * * *", "0 * * * *", "59 * * * *", "0,59 0,23 * * *"), "boundary"
	default:
		return fmt.Sprintf("%s %s %s %s %s", genCronList(r, 0, 59, nil, true), pickS(r, "*", genCronList(r, 0, 23, nil, true)),
			pickS(r, "*", genCronList(r, 1, 31, nil, false)), pickS(r, "*", genCronList(r, 1, 12, cronMonList, true)), "*"), "mixed"
	}
}
