package props

// C11 — parameters and step outputs reach the steps that use them, unchanged.
// (1) in-process: parameter strings built from the documented syntax (the
// expectation is known by construction, no re-parsing) through dag.Load, the
// exported $k / $NAME, and the record -> reload round trip that retry and
// restart use;  (2) real `blackdagger` binary with probe child processes as
// steps and handlers: start -p, retry --req, restart;  (3) output capture:
// a producer child prints known bytes, the producer also redirects stdout (and stderr) to files in a third of the cases; consumers (next step, a later step,
// handlers, a retry) dump the variable they see.

import (
	"encoding/json"
	"fmt"
	"math/rand"
	"os"
	"os/exec"
	"path/filepath"
	"regexp"
	"strconv"
	"strings"
	"syscall"
	"time"

	"github.com/ErdemOzgen/blackdagger/internal/dag"
	"github.com/ErdemOzgen/blackdagger/internal/persistence/jsondb"
	"github.com/ErdemOzgen/blackdagger/internal/persistence/model"
	"github.com/ErdemOzgen/blackdagger/verifh/core"
	"github.com/ErdemOzgen/blackdagger/verifh/pgrp"
)

// ---- probe / printfile child processes ------------------------------------------------

// probe <out.json> [exit code]: dumps environment and arguments
func probeMain(args []string) int {
	if len(args) < 1 {
		return 9
	}
	env := map[string]string{}
	for _, kv := range os.Environ() {
		k, v, _ := strings.Cut(kv, "=")
		env[k] = v
	}
	b, _ := json.Marshal(map[string]any{"env": env, "args": args[1:], "time": time.Now().UnixNano()})
	f, err := os.OpenFile(args[0], os.O_APPEND|os.O_CREATE|os.O_WRONLY, 0644)
	if err == nil {
		_, _ = f.Write(append(b, '\n'))
		f.Close()
	}
	if len(args) > 1 {
		if n, err := strconv.Atoi(args[1]); err == nil {
			return n
		}
	}
	return 0
}

// probegate <file> <gate> [args...]: a probe that fails until the gate file exists
func probegateMain(args []string) int {
	if len(args) < 2 {
		return 9
	}
	probeMain(append([]string{args[0], "0"}, args[2:]...))
	if _, err := os.Stat(args[1]); err != nil {
		return 1
	}
	return 0
}

// printfile <file> [stderr-file]: prints the file to stdout (and the other to stderr)
func printfileMain(args []string) int {
	if len(args) > 1 {
		if b, err := os.ReadFile(args[1]); err == nil {
			_, _ = os.Stderr.Write(b)
		}
	}
	b, err := os.ReadFile(args[0])
	if err != nil {
		return 9
	}
	for len(b) > 0 {
		n, err := os.Stdout.Write(b)
		if err != nil {
			return 8
		}
		b = b[n:]
	}
	return 0
}

func init() {
	core.Sub["probe"] = probeMain
	core.Sub["probegate"] = probegateMain
	core.Sub["printfile"] = printfileMain
}

// ---- parameter strings from the documented syntax ------------------------------------------

type pTok struct {
	Name   string `json:"name,omitempty"`
	Value  string `json:"value"`
	Quoted bool   `json:"quoted"`
}

var paramValues = []string{"a", "abc123", "hello world", "x=y", "a==b", "=", "  lead", "trail  ", `q"uote`, `"`, `end"`, `"start`, `""`, "ü ñ €", "日本語", `back\slash`, `c:\dir\`, "it's", "--flag", "-p", "", " ", "two  spaces", "tab\there", "semi;colon", "a,b", "#hash", "*", "?", "[x]", "{y}", "~", "1", "0", "-1", "true", strings.Repeat("long ", 400)}
var paramNames = []string{"FOO", "BAR", "X", "name_1", "lower", "A1"}

func needsQuote(v string) bool {
	return v == "" || strings.ContainsAny(v, " \t\"`")
}

func genParams(r *rand.Rand) (string, []pTok) {
	n := 1 + r.Intn(4)
	var toks []pTok
	var parts []string
	for i := 0; i < n; i++ {
		t := pTok{Value: paramValues[r.Intn(len(paramValues))]}
		if r.Intn(3) == 0 {
			t.Name = paramNames[r.Intn(len(paramNames))] + strconv.Itoa(i)
		}
		t.Quoted = needsQuote(t.Value) || r.Intn(3) == 0
		if strings.HasSuffix(t.Value, `\`) && !needsQuote(t.Value) {
			t.Quoted = false // "...\" would read as an escaped quote: the syntax has no way to quote a trailing backslash
		}
		if !t.Quoted && t.Name == "" && strings.Contains(t.Value, "=") {
			t.Quoted = true // a bare word with '=' is the NAME=value form, not a positional value
		}
		txt := t.Value
		if t.Quoted {
			txt = `"` + strings.ReplaceAll(t.Value, `"`, `\"`) + `"`
		}
		if t.Name != "" {
			txt = t.Name + "=" + txt
		}
		toks = append(toks, t)
		parts = append(parts, txt)
	}
	sep := " "
	if r.Intn(6) == 0 {
		sep = "  "
	}
	return strings.Join(parts, sep), toks
}

func expectParams(toks []pTok) []string {
	var out []string
	for _, t := range toks {
		if t.Name != "" {
			out = append(out, t.Name+"="+t.Value)
		} else {
			out = append(out, t.Value)
		}
	}
	return out
}

// paramClass names the feature of the token a finding is about.
func tokClass(t pTok) string {
	v := t.Value
	switch {
	case v == "":
		return "empty-value"
	case strings.HasSuffix(v, `"`) || strings.HasPrefix(v, `"`):
		return "quote-at-edge"
	case strings.Contains(v, `"`):
		return "quote-inside"
	case strings.TrimSpace(v) != v:
		return "blank-at-edge"
	case strings.ContainsAny(v, " \t"):
		return "space-inside"
	case strings.Contains(v, "="):
		return "equals"
	case strings.Contains(v, `\`):
		return "backslash"
	}
	return "plain"
}

func c11Strings(c *core.Ctx) {
	root, err := os.MkdirTemp(c.Scratch, "c11s-")
	if err != nil {
		c.Inconclusive("mkdtemp")
		return
	}
	defer os.RemoveAll(root)
	n := c.Pick(24000, 400000)
	for idx := 0; idx < n; idx++ {
		if !c.Mine(idx) {
			continue
		}
		r := c.Rand("params", idx)
		P, toks := genParams(r)
		want := expectParams(toks)
		asDefault := r.Intn(3) == 0
		file := filepath.Join(root, fmt.Sprintf("p%d.yaml", idx))
		text := "steps:\n  - name: s\n    command: \"true\"\n"
		given := P
		if asDefault {
			jb, _ := json.Marshal(P) // JSON string syntax is valid YAML double-quoted syntax
			text = "params: " + string(jb) + "\n" + text
			given = ""
		}
		_ = os.WriteFile(file, []byte(text), 0644)
		desc := map[string]any{"params": P, "tokens": toks, "as_default": asDefault}
		c.Begin(idx, desc)
		c.Eval(1)
		d, err := dag.Load("", file, given)
		os.Remove(file)
		if err != nil {
			c.Violate(idx, "params-rejected", fmt.Sprintf("a parameter string in the documented syntax was rejected: %q: %v", P, err), desc)
			c.End(idx)
			continue
		}
		seen := map[string]bool{}
		v := func(key, what string) {
			if !seen[key] {
				seen[key] = true
				c.Violate(idx, key, what, desc)
			}
		}
		c.Count("obligations", int64(1+2*len(toks)))
		if len(d.Params) != len(want) {
			cls := "plain"
			for _, t := range toks {
				if cl := tokClass(t); cl != "plain" {
					cls = cl
				}
			}
			v("params-count|"+cls, fmt.Sprintf("%q gives %d parameters %q, expected %d %q", P, len(d.Params), d.Params, len(want), want))
		} else {
			for i, t := range toks {
				if d.Params[i] != want[i] {
					v("param-value|"+tokClass(t), fmt.Sprintf("parameter %d of %q is %q, expected %q", i+1, P, d.Params[i], want[i]))
				}
				if got := os.Getenv(strconv.Itoa(i + 1)); got != want[i] {
					v("param-env-positional|"+tokClass(t), fmt.Sprintf("$%d after loading %q is %q, expected %q", i+1, P, got, want[i]))
				}
				if t.Name != "" {
					if got := os.Getenv(t.Name); got != t.Value {
						v("param-env-named|"+tokClass(t), fmt.Sprintf("$%s after loading %q is %q, expected %q", t.Name, P, got, t.Value))
					}
				}
			}
		}
		// what retry and restart do: reload with the recorded parameter string
		rec := model.Params(d.Params)
		_ = os.WriteFile(file, []byte("steps:\n  - name: s\n    command: \"true\"\n"), 0644)
		d2, err := dag.Load("", file, rec)
		os.Remove(file)
		c.Count("obligations", 1)
		cls := "plain"
		for _, t := range toks {
			if cl := tokClass(t); cl != "plain" {
				cls = cl
			}
		}
		if err != nil {
			v("roundtrip-rejected|"+cls, fmt.Sprintf("the parameter string recorded for %q (%q) is rejected when the run is repeated: %v", P, rec, err))
		} else if fmt.Sprintf("%q", d2.Params) != fmt.Sprintf("%q", d.Params) {
			v("roundtrip|"+cls, fmt.Sprintf("a run started with parameters %q is recorded as %q and repeated (retry/restart) with %q", d.Params, rec, d2.Params))
		}
		for _, t := range toks {
			c.SetAdd("param_classes", tokClass(t))
		}
		c.Sig(P, asDefault)
		if idx%997 == 0 {
			c.Sample(desc)
		}
		c.End(idx)
	}
}

// ---- real binary --------------------------------------------------------------------------

type bdHome struct {
	root, home, dags, data, logs string
	bin                          string
}

func newBDHome(c *core.Ctx, tag string) (*bdHome, error) {
	bin := os.Getenv("VERIF_BLACKDAGGER")
	if bin == "" {
		return nil, fmt.Errorf("VERIF_BLACKDAGGER not set (bin/check builds it)")
	}
	root, err := os.MkdirTemp(c.Scratch, tag)
	if err != nil {
		return nil, err
	}
	h := &bdHome{root: root, home: filepath.Join(root, "home"), bin: bin}
	h.dags, h.data, h.logs = filepath.Join(h.home, "dags"), filepath.Join(h.home, "data"), filepath.Join(h.home, "logs")
	for _, d := range []string{h.dags, h.data, h.logs, filepath.Join(h.home, "suspend")} {
		_ = os.MkdirAll(d, 0755)
	}
	return h, nil
}

func (h *bdHome) env() []string {
	var env []string
	for _, kv := range os.Environ() {
		if strings.HasPrefix(kv, "BLACKDAGGER_") || strings.HasPrefix(kv, "HOME=") {
			continue
		}
		env = append(env, kv)
	}
	return append(env, "BLACKDAGGER_HOME="+h.home, "HOME="+h.root, "TZ=UTC")
}

func (h *bdHome) run(limit time.Duration, args ...string) (int, string, bool) {
	cmd := exec.Command(h.bin, args...)
	cmd.Env = h.env()
	cmd.Dir = h.root
	cmd.SysProcAttr = &syscall.SysProcAttr{Setpgid: true}
	var out strings.Builder
	cmd.Stdout, cmd.Stderr = &out, &out
	if err := cmd.Start(); err != nil {
		return -1, err.Error(), false
	}
	grp := pgrp.Open(cmd.Process.Pid)
	defer grp.Close()
	done := make(chan error, 1)
	go func() { done <- cmd.Wait() }()
	select {
	case <-done:
		return cmd.ProcessState.ExitCode(), out.String(), false
	case <-time.After(limit):
		grp.Kill()
		<-done
		return -1, out.String(), true
	}
}

type probeRec struct {
	Env  map[string]string `json:"env"`
	Args []string          `json:"args"`
}

func readProbes(file string) []probeRec {
	b, err := os.ReadFile(file)
	if err != nil {
		return nil
	}
	var out []probeRec
	for _, l := range strings.Split(strings.TrimSpace(string(b)), "\n") {
		var p probeRec
		if json.Unmarshal([]byte(l), &p) == nil && p.Env != nil {
			out = append(out, p)
		}
	}
	return out
}

func yq(s string) string { b, _ := json.Marshal(s); return string(b) }

var reqIDRe = regexp.MustCompile(`"RequestId":"([^"]+)"`)

func (h *bdHome) lastRequestID(loc string) string {
	rec := jsondb.New(h.data, false).ReadStatusRecent(loc, 1)
	if len(rec) == 1 {
		return rec[0].Status.RequestID
	}
	return ""
}

// c11Process: parameters as real child processes of start / retry / restart see them.
func c11Process(c *core.Ctx) {
	self, _ := os.Executable()
	n := c.Pick(96, 1500)
	for idx := 0; idx < n; idx++ {
		if !c.Mine(idx) {
			continue
		}
		r := c.Rand("proc", idx)
		h, err := newBDHome(c, "c11p-")
		if err != nil {
			c.Inconclusive(err.Error())
			return
		}
		P, toks := genParams(r)
		defP, defToks := genParams(r)
		useDefault := r.Intn(4) == 0
		if useDefault {
			toks = defToks
		}
		want := expectParams(toks)
		probe := func(name string, exit int) string {
			return fmt.Sprintf("%s probe %s %d", self, filepath.Join(h.root, name+".json"), exit)
		}
		loc := filepath.Join(h.dags, "p.yaml")
		text := "env:\n  - VERIF_C11_ENVV: value-of-the-recorded-run\nparams: " + yq(defP) + "\nhandlerOn:\n  exit:\n    command: " + yq(probe("onexit", 0)) + "\n  failure:\n    command: " + yq(probe("onfailure", 0)) +
			"\nsteps:\n  - name: s1\n    command: " + yq(probe("s1", 0)) + "\n  - name: s2\n    command: " + yq(probe("s2", 1)) + "\n    depends: [s1]\n"
		_ = os.WriteFile(loc, []byte(text), 0644)
		desc := map[string]any{"start_params": P, "default_params": defP, "use_default": useDefault, "tokens": toks}
		c.Begin(idx, desc)
		c.Eval(1)
		args := []string{"start"}
		if !useDefault {
			args = append(args, "-p", `"`+P+`"`) // as client.Start hands parameters over
		}
		_, out, to := h.run(60*time.Second, append(args, loc)...)
		if to {
			c.Inconclusive("c11 start timed out: " + clip(out, 300))
			os.RemoveAll(h.root)
			c.End(idx)
			continue
		}
		seen := map[string]bool{}
		v := func(key, what string) {
			if !seen[key] {
				seen[key] = true
				c.Violate(idx, key, what, desc)
			}
		}
		judge := func(phase string, files ...string) {
			for _, f := range files {
				ps := readProbes(filepath.Join(h.root, f+".json"))
				c.Count("obligations", 1)
				if len(ps) == 0 {
					v("probe-missing|"+phase+"|"+f, fmt.Sprintf("%s: %s did not run (output: %s)", phase, f, clip(out, 300)))
					continue
				}
				p := ps[len(ps)-1]
				c.Count("probes_read", 1)
				for i, t := range toks {
					c.Count("obligations", 1)
					if got := p.Env[strconv.Itoa(i+1)]; got != want[i] {
						v("process-positional|"+phase+"|"+tokClass(t), fmt.Sprintf("%s: %s sees $%d = %q, expected %q", phase, f, i+1, got, want[i]))
					}
					if t.Name != "" {
						if got := p.Env[t.Name]; got != t.Value {
							v("process-named|"+phase+"|"+tokClass(t), fmt.Sprintf("%s: %s sees $%s = %q, expected %q", phase, f, t.Name, got, t.Value))
						}
					}
				}
				// the definition's env: section as the recorded run had it (steps only: the steps
				// of a retry come from the record)
				if f == "s1" || f == "s2" {
					c.Count("obligations", 1)
					if got := p.Env["VERIF_C11_ENVV"]; got != "value-of-the-recorded-run" {
						v("process-env-section|"+phase, fmt.Sprintf("%s: %s sees $VERIF_C11_ENVV = %q, the run that is repeated had %q in its env: section", phase, f, got, "value-of-the-recorded-run"))
					}
				}
				if _, extra := p.Env[strconv.Itoa(len(toks)+1)]; extra {
					v("process-extra-positional|"+phase, fmt.Sprintf("%s: %s sees a parameter $%d although only %d were given", phase, f, len(toks)+1, len(toks)))
				}
			}
			for _, f := range files {
				os.Remove(filepath.Join(h.root, f+".json"))
			}
		}
		judge("start", "s1", "s2", "onfailure", "onexit")
		first := h.lastRequestID(loc)
		if first != "" && len(seen) == 0 {
			// a second run with other parameters, then retry of the FIRST run
			otherP, _ := genParams(r)
			_, _, _ = h.run(60*time.Second, "start", "-p", `"`+otherP+`"`, loc)
			for _, f := range []string{"s1", "s2", "onfailure", "onexit"} {
				os.Remove(filepath.Join(h.root, f+".json"))
			}
			if idx%2 == 0 {
				// the definition is edited between the run and its retry
				edited := strings.Replace(text, "value-of-the-recorded-run", "edited-after-the-run", 1)
				_ = os.WriteFile(loc+".tmp", []byte(edited), 0644)
				_ = os.Rename(loc+".tmp", loc)
				c.Count("definitions_edited_before_the_retry", 1)
			}
			_, out, _ = h.run(60*time.Second, "retry", "--req="+first, loc)
			judge("retry", "s2", "onfailure", "onexit")
			_ = os.WriteFile(loc, []byte(text), 0644)
			c.Count("retries", 1)
			if idx%3 == 0 && len(seen) == 0 {
				// restart repeats the latest run: make the first one the latest again
				os.RemoveAll(h.data)
				_ = os.MkdirAll(h.data, 0755)
				_, _, _ = h.run(60*time.Second, append(args, loc)...)
				for _, f := range []string{"s1", "s2", "onfailure", "onexit"} {
					os.Remove(filepath.Join(h.root, f+".json"))
				}
				_, out, _ = h.run(60*time.Second, "restart", loc)
				judge("restart", "s1", "s2", "onfailure", "onexit")
				c.Count("restarts", 1)
			}
		}
		c.Sig("proc", P, defP, useDefault)
		if idx%29 == 0 {
			c.Sample(desc)
		}
		os.RemoveAll(h.root)
		c.End(idx)
	}
}

// ---- captured outputs -----------------------------------------------------------------------

func genOutput(r *rand.Rand, idx int) (content []byte, class string) {
	sizes := []int{0, 1, 2, 100, 4095, 4096, 4097, 65535, 65536, 65537, 100000}
	alph := []string{"abcdefghij", " \t\n", "\"'`", "=$\\", "üñ€日本", "{}[]()<>|&;*?#~!%^", "0123456789", "\r\n"}
	switch k := idx % 4; {
	case k == 0:
		n := sizes[(idx/4)%len(sizes)]
		b := make([]byte, n)
		for i := range b {
			b[i] = "abcdefghijklmnopqrstuvwxyz0123456789"[(i*7+i/36)%36]
		}
		return b, fmt.Sprintf("size-%d", n)
	case k == 1:
		// whitespace around and inside
		core := "line one\nline two  \n\n  indented\ttab"
		return []byte(pickS(r, "", " ", "\n", "\n\n  ", "\t") + core + pickS(r, "", " ", "\n", "  \n\n", "\r\n")), "whitespace"
	default:
		n := 1 + r.Intn(300)
		var sb strings.Builder
		for sb.Len() < n {
			a := alph[r.Intn(len(alph))]
			rs := []rune(a)
			sb.WriteRune(rs[r.Intn(len(rs))])
		}
		return []byte(sb.String()), "special-characters"
	}
}

func c11Outputs(c *core.Ctx) {
	self, _ := os.Executable()
	n := c.Pick(88, 1200)
	for idx := 0; idx < n; idx++ {
		if !c.Mine(idx) {
			continue
		}
		r := c.Rand("out", idx)
		h, err := newBDHome(c, "c11o-")
		if err != nil {
			c.Inconclusive(err.Error())
			return
		}
		content, class := genOutput(r, idx)
		want := strings.TrimSpace(string(content))
		withStderr := idx%5 == 3
		src := filepath.Join(h.root, "content.bin")
		_ = os.WriteFile(src, content, 0644)
		errSrc := filepath.Join(h.root, "stderr.txt")
		_ = os.WriteFile(errSrc, []byte("THIS-WENT-TO-STDERR\n"), 0644)
		producer := fmt.Sprintf("%s printfile %s", self, src)
		if withStderr {
			producer += " " + errSrc
		}
		retried := idx%4 == 2
		produceExtra := ""
		if retried {
			// the producer prints, fails, and is retried: the value is the LAST attempt's output
			pg := filepath.Join(h.root, "produce-gate")
			producer = "sh -c " + yq(fmt.Sprintf("%s; if test -e %s; then exit 0; else touch %s; exit 1; fi", producer, pg, pg))
			produceExtra = "    retryPolicy:\n      limit: 1\n      intervalSec: 0\n"
		}
		probe := func(name string, exit int) string {
			return fmt.Sprintf("%s probe %s %d", self, filepath.Join(h.root, name+".json"), exit)
		}
		// the producer's streams may be redirected to files as well: capture must not care
		redirects := ""
		switch idx % 6 {
		case 1:
			redirects = "    stdout: " + yq(filepath.Join(h.root, "produce.stdout")) + "\n"
			c.Count("producers_with_a_stdout_file", 1)
		case 4:
			redirects = "    stdout: " + yq(filepath.Join(h.root, "produce.stdout")) + "\n    stderr: " + yq(filepath.Join(h.root, "produce.stderr")) + "\n"
			c.Count("producers_with_a_stdout_file", 1)
		}
		loc := filepath.Join(h.dags, "o.yaml")
		// gate: the last step fails in the first run (so that a retry re-executes it) and succeeds afterwards
		gate := filepath.Join(h.root, "gate")
		last := fmt.Sprintf("sh -c %s", yq(fmt.Sprintf("%s probe %s 0; test -e %s", self, filepath.Join(h.root, "late.json"), gate)))
		// the captured value as a command ARGUMENT ($CAPTURED expanded by blackdagger, not by
		// the consumer's shell), and the same name also given a default in the DAG's env:
		asArg := strings.HasPrefix(class, "size-") && len(want) > 0 && len(want) <= 4097
		envDefault := idx%8 >= 4
		nextCmd := probe("next", 0)
		if asArg {
			nextCmd += " $CAPTURED"
			last = fmt.Sprintf("%s probegate %s %s $CAPTURED", self, filepath.Join(h.root, "late.json"), gate)
			c.Count("consumers_taking_the_value_as_argument", 1)
		}
		head := ""
		if envDefault {
			head = "env:\n  - CAPTURED: dag-level-default\n"
			c.Count("cases_with_same_name_in_env_section", 1)
		}
		text := head + "handlerOn:\n  exit:\n    command: " + yq(probe("onexit", 0)) + "\n  failure:\n    command: " + yq(probe("onfailure", 0)) + "\n  success:\n    command: " + yq(probe("onsuccess", 0)) +
			"\nsteps:\n  - name: produce\n    command: " + yq(producer) + "\n    output: CAPTURED\n" + redirects + produceExtra +
			"  - name: next\n    command: " + yq(nextCmd) + "\n    depends: [produce]\n" +
			"  - name: middle\n    command: \"true\"\n    depends: [next]\n" +
			"  - name: late\n    command: " + last + "\n    depends: [middle]\n"
		_ = os.WriteFile(loc, []byte(text), 0644)
		desc := map[string]any{"class": class, "bytes": len(content), "stderr_too": withStderr, "content": clip(string(content), 200), "as_argument": asArg, "same_name_in_env_section": envDefault}
		c.Begin(idx, desc)
		c.Eval(1)
		c.SetAdd("output_classes", class)
		_, out, to := h.run(60*time.Second, "start", loc)
		seen := map[string]bool{}
		v := func(key, what string) {
			if !seen[key] {
				seen[key] = true
				c.Violate(idx, key, what, desc)
			}
		}
		sizeClass := class
		if len(content) >= 65536 {
			sizeClass = "above-pipe-buffer"
		}
		if withStderr {
			sizeClass += "+stderr"
		}
		if envDefault {
			sizeClass += "+env-default"
		}
		if retried {
			sizeClass += "+retried-producer"
			c.Count("retried_producers", 1)
		}
		c.Count("obligations", 1)
		if to {
			v("output-hang|"+sizeClass, fmt.Sprintf("a step printing %d bytes with output: set did not finish within 60 s (the producer needs milliseconds)", len(content)))
		} else {
			judge := func(phase string, files ...string) {
				for _, f := range files {
					ps := readProbes(filepath.Join(h.root, f+".json"))
					c.Count("obligations", 1)
					if len(ps) == 0 {
						v("consumer-missing|"+phase+"|"+f, fmt.Sprintf("%s: consumer %s did not run: %s", phase, f, clip(out, 300)))
						continue
					}
					got, ok := ps[len(ps)-1].Env["CAPTURED"]
					c.Count("consumers_read", 1)
					if !ok || got != want {
						v("output-value|"+phase+"|"+sizeClass, fmt.Sprintf("%s: %s sees $CAPTURED = %q (%d bytes, set=%v), expected the producer's trimmed stdout %q (%d bytes)", phase, f, clip(got, 120), len(got), ok, clip(want, 120), len(want)))
					}
					if asArg && (f == "next" || f == "late") {
						c.Count("obligations", 1)
						c.Count("argument_consumers_read", 1)
						if a := ps[len(ps)-1].Args; len(a) < 2 || a[len(a)-1] != want {
							v("output-argument|"+phase+"|"+sizeClass, fmt.Sprintf("%s: %s was given the arguments %q for `... $CAPTURED`, expected the producer's trimmed stdout %q (%d bytes) as the last one", phase, f, clip(fmt.Sprint(a), 160), clip(want, 120), len(want)))
						}
					}
					os.Remove(filepath.Join(h.root, f+".json"))
				}
			}
			judge("run", "next", "late", "onfailure", "onexit")
			if req := h.lastRequestID(loc); req != "" && len(seen) == 0 {
				if idx%3 == 0 {
					// a retry whose re-executed step fails again, then a retry of THAT retry's
					// record (a fresh process each time): kept outputs must survive both records
					_, out, _ = h.run(60*time.Second, "retry", "--req="+req, loc)
					judge("retry-that-fails-again", "late", "onfailure", "onexit")
					if r2 := h.lastRequestID(loc); r2 != "" && r2 != req {
						req = r2
						c.Count("retries_of_a_retry", 1)
					}
				}
				_ = os.WriteFile(gate, nil, 0644)
				_, out, _ = h.run(60*time.Second, "retry", "--req="+req, loc)
				judge("retry", "late", "onsuccess", "onexit")
				c.Count("retries", 1)
			}
		}
		c.Sig("out", class, len(content), withStderr, string(content))
		if idx%23 == 0 {
			c.Sample(desc)
		}
		os.RemoveAll(h.root)
		c.End(idx)
	}
}

func c11Body(c *core.Ctx) {
	switch c.Mode {
	case "strings":
		c11Strings(c)
	case "process":
		c11Process(c)
	case "outputs":
		c11Outputs(c)
	case "recorded":
		c11Recorded(c)
	}
}

func init() {
	core.Register(&core.Prop{ID: "C11", Level: "exploration", Body: c11Body, CrashKey: crashKeyGeneric, MinDistinct: 200,
		Passes: func(tier string) []core.Pass {
			return []core.Pass{
				{Name: "strings", Mode: "strings", Shards: 8, Timeout: 60 * time.Minute},
				{Name: "process", Mode: "process", Shards: 12, Timeout: 60 * time.Minute},
				{Name: "outputs", Mode: "outputs", Shards: 12, Timeout: 60 * time.Minute},
				{Name: "recorded", Mode: "recorded", Shards: 12, Timeout: 60 * time.Minute},
			}
		},
		Rule:        "Parameter strings are BUILT from the documented syntax (1-4 tokens: bare word, \"quoted value\" with \\\" escapes, NAME=value, NAME=\"quoted value\"; values from a pool with spaces, leading/trailing blanks, quotes inside and at the edges, '=', backslashes, unicode, empty, glob and shell characters, 2 kB), so the expected values are known by construction. strings pass: 24000 (400000) strings through dag.Load as start parameters or as the definition's defaults: DAG.Params, the exported $1..$n and $NAME, and the round trip retry/restart perform (reload with model.Params(recorded)). process pass: 96 (1500) cases with the real blackdagger binary: steps and handlers are probe child processes that dump the environment they see; start -p (as client.Start hands parameters over) or defaults, then a second run with other parameters and retry --req of the FIRST run, then restart; every probe must see exactly the given values; the definition has an env: section whose value is edited between the first run and its retry in half of the cases: the re-executed step must see the value the recorded run had. outputs pass: 88 (1200) cases: a producer child prints known bytes (sizes 0, 1, 2, 100, 4095-4097, 65535-65537, 100000; whitespace around/inside; quotes, = $ \\, unicode, shell characters; optionally also stderr), consumers (next step, a later step, onFailure/onSuccess/onExit handlers, the re-executed step of a retry, and of a retry of that retry's record) dump $CAPTURED which must equal the trimmed stdout; the producing run must end within 60 s; for plain values the consumers also take $CAPTURED as a command ARGUMENT, in half the cases with the same name given a default in the DAG's env: section. recorded pass: 700 (12000) in-process agent runs (scripted executor) of 2-10 parallel producers that capture distinct known values (1 B - 90 kB) and finish together, and a dependent step that fails: every value must be seen by the dependent step, be in the final record read back through a fresh jsondb store, and be seen by the step a retry (RetryTarget, environment cleared first as in a new process) re-executes. Non-trivial/distinct = distinct strings / cases.",
		Assumptions: []string{"'$' and backticks are not generated inside parameter values (environment and command substitution are documented features of start parameters)", "newlines inside a parameter are not generated; captured outputs stay below the kernel's 128 KiB per-string exec limit"}})
}
