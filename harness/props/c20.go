package props

// C20 — control actions through the web API respect the state of the run.
// The assembled go-swagger API (real handler, real client, real stores) is
// driven in-process; DAG states are produced by the real agent under the
// scripted executor (finished / failed / running with a live socket) or left
// as a crash leaves them (history ends in "running", no socket); the
// "executable" the client spawns is a recorder.  Every action is judged on its
// response, the recorder log, and a byte-level dump of all stores before/after.

import (
	"bufio"
	"bytes"
	"encoding/json"
	"fmt"
	"io"
	"math/rand"
	"net"
	"net/http/httptest"
	"net/url"
	"os"
	"path/filepath"
	"reflect"
	"strings"
	"sync"
	"time"

	"github.com/ErdemOzgen/blackdagger/internal/dag"
	dagsched "github.com/ErdemOzgen/blackdagger/internal/dag/scheduler"
	"github.com/ErdemOzgen/blackdagger/internal/persistence/jsondb"
	"github.com/ErdemOzgen/blackdagger/internal/persistence/model"
	"github.com/ErdemOzgen/blackdagger/verifh/apih"
	"github.com/ErdemOzgen/blackdagger/verifh/core"
	"github.com/ErdemOzgen/blackdagger/verifh/vexec"
)

func c20Recorder(args []string) int {
	f, err := os.OpenFile(os.Getenv("VERIF_C20_LOG"), os.O_APPEND|os.O_CREATE|os.O_WRONLY, 0644)
	if err != nil {
		return 0
	}
	b, _ := json.Marshal(args)
	_, _ = f.Write(append(b, '\n'))
	f.Close()
	return 0
}

func init() { core.Sub["c20rec"] = c20Recorder }

type c20Run struct {
	Req   string
	Kind  string // finished failed canceled crashed
	Steps []string
}

type c20Dag struct {
	ID      string
	Steps   []string
	Runs    []*c20Run
	Running bool
	heldReq string
	held    chan *vexec.Outcome
	// a run held in a lifecycle handler (not in a step): released through the case
	heldCase *vexec.Case
	heldGate string
	phase    string
	frozen   net.Listener
}

type c20Env struct {
	c     *core.Ctx
	idx   int
	r     *rand.Rand
	env   *apih.Env
	dags  []*c20Dag
	rec   string
	ops   []string
	seen  map[string]bool
	nCase int
	// abandon: stop acting on this sequence (see postLive)
	abandon bool
}

func (e *c20Env) violate(key, what string) {
	if e.seen[key] {
		return
	}
	// A held run that the harness itself has given up (its own watchdog: Outcome.Inconclusive)
	// is no longer the live run the model of this sequence assumes: what the API says about the
	// DAG from then on is not judged.  A held run that ended without the harness's doing is the
	// product's, and stays judged.
	for _, d := range e.dags {
		if d.Running && d.held != nil {
			select {
			case o := <-d.held:
				d.held <- o
				if o != nil && o.Inconclusive != "" {
					e.c.Count("sequences_abandoned_because_the_harness_gave_up_the_held_run", 1)
					e.abandon = true
					return
				}
			default:
			}
		}
	}
	e.seen[key] = true
	ops := e.ops
	if len(ops) > 30 {
		ops = ops[len(ops)-30:]
	}
	e.c.Violate(e.idx, key, what, map[string]any{"sequence": e.idx, "last_actions": ops})
}

// dump is the byte-level picture of all stores, without the file of a run
// that is in progress right now (the held agent writes to it on its own).
func (e *c20Env) dump() map[string]string {
	m := apih.Dump(e.env.Data, e.env.DAGs, e.env.Suspend)
	for _, d := range e.dags {
		if d.Running && len(d.heldReq) >= 8 {
			for k := range m {
				if strings.Contains(filepath.Base(k), d.heldReq[:8]) {
					delete(m, k)
				}
			}
		}
	}
	return m
}

func (e *c20Env) spawns() [][]string {
	f, err := os.Open(e.rec)
	if err != nil {
		return nil
	}
	defer f.Close()
	var out [][]string
	sc := bufio.NewScanner(f)
	sc.Buffer(make([]byte, 1<<16), 1<<22)
	for sc.Scan() {
		var a []string
		if json.Unmarshal(sc.Bytes(), &a) == nil {
			out = append(out, a)
		}
	}
	return out
}

func (e *c20Env) post(dagID string, body map[string]string) int {
	jb, _ := json.Marshal(body)
	req := httptest.NewRequest("POST", "/api/v1/dags/"+url.PathEscape(dagID), bytes.NewReader(jb))
	req.Header.Set("Content-Type", "application/json")
	rec := httptest.NewRecorder()
	e.env.Handler.ServeHTTP(rec, req)
	return rec.Code
}

// view is what the API shows of the DAGs that are at rest (status + history tab): a refused
// action must not change it either (the stores' bytes are compared separately).
func (e *c20Env) view() map[string]string {
	m := map[string]string{}
	for _, d := range e.dags {
		if d.Running || d.frozen != nil {
			continue
		}
		req := httptest.NewRequest("GET", "/api/v1/dags/"+url.PathEscape(d.ID)+"?tab=history", nil)
		rec := httptest.NewRecorder()
		e.env.Handler.ServeHTTP(rec, req)
		m[d.ID] = fmt.Sprintf("%d %s", rec.Code, rec.Body.String())
	}
	return m
}

// freeze puts a listener that accepts and never answers where the DAG's agent would listen
// (a frozen or overloaded agent process): status edits are then refused after the handler's
// own guard has passed.
func (e *c20Env) freeze(d *c20Dag) bool {
	dg := mustDAG(e, d)
	if dg == nil {
		return false
	}
	_ = os.Remove(dg.SockAddr())
	l, err := net.Listen("unix", dg.SockAddr())
	if err != nil {
		return false
	}
	d.frozen = l
	go func() {
		var held []net.Conn
		defer func() {
			for _, c := range held {
				c.Close()
			}
		}()
		for {
			c, err := l.Accept()
			if err != nil {
				return
			}
			held = append(held, c)
		}
	}()
	return true
}

func (e *c20Env) unfreeze(d *c20Dag) {
	if d.frozen != nil {
		d.frozen.Close()
		if dg := mustDAG(e, d); dg != nil {
			_ = os.Remove(dg.SockAddr())
		}
		d.frozen = nil
	}
}

// postLive: an action on the DAG whose run the harness holds open.  The API decides by asking
// the agent over its socket with a 3 s deadline of its own; on a loaded machine one such
// exchange can miss that deadline, and the API then falls back to the history file.  A wrong
// answer is therefore asked again once: only a repeated wrong answer is a verdict; a one-off
// is counted and the rest of the sequence (whose model may be off now) is abandoned.
func (e *c20Env) postLive(dagID string, body map[string]string, wrong func(int) bool) int {
	// The API asks the agent over its socket and gives it 3 s (sock.defaultTimeout); when
	// that exchange times out it decides from the history file instead, which for a live run
	// says "not running".  On a loaded machine this happens to a healthy agent (seen in a
	// fresh-copy run while six other jobs used the machine: two exchanges in a row).  A wrong
	// answer that took at least that long may be nothing but this timeout and is therefore
	// not a verdict: it is counted and the sequence abandoned.  A wrong answer that came back
	// faster than any timeout could have expired is the API's own decision; it is asked
	// again once and reported if it repeats.
	const agentTimeout = 2500 * time.Millisecond
	for attempt := 0; ; attempt++ {
		t0 := time.Now()
		code := e.post(dagID, body)
		took := time.Since(t0)
		if !wrong(code) {
			if attempt > 0 {
				e.c.Count("wrong_answers_on_a_live_run_not_reproduced", 1)
				e.abandon = true
			}
			return code
		}
		if took >= agentTimeout {
			e.c.Count("wrong_answers_on_a_live_run_after_an_agent_timeout", 1)
			e.abandon = true
			return -1
		}
		if attempt >= 1 {
			return code
		}
		time.Sleep(300 * time.Millisecond)
	}
}

func (e *c20Env) spec(d *c20Dag, kind string) *vexec.CaseSpec {
	e.nCase++
	sp := &vexec.CaseSpec{ID: d.ID, Level: "agent", Free: true, DecSeed: int64(e.idx*1000 + e.nCase), PauseUs: 200, MaxCleanUpMs: 200}
	for i, n := range d.Steps {
		s := &vexec.StepSpec{Name: n}
		if i > 0 {
			s.Depends = []string{d.Steps[i-1]}
		}
		switch {
		case kind == "failed" && i == len(d.Steps)-1:
			s.FailFirst = -1
		case kind == "running" && i == 0:
			s.Never = true
		case kind == "running-in-failure-handler" && i == 0:
			s.FailFirst = -1
		}
		sp.Steps = append(sp.Steps, s)
	}
	if strings.HasPrefix(kind, "running") && e.nCase%4 == 0 {
		// a big definition: the status document the agent serves is above 1 MiB
		sp.Steps[0].PadBytes = 1500000
		e.c.Count("held_runs_with_a_status_document_above_1MiB", 1)
	}
	switch kind {
	case "running-in-failure-handler":
		sp.Handlers = map[string]*vexec.HandlerSpec{"onFailure": {Hold: true}}
	case "running-in-exit-handler":
		sp.Handlers = map[string]*vexec.HandlerSpec{"onExit": {Hold: true}}
	}
	return sp
}

// makeRun produces one more recorded run of the DAG with the real agent.
func (e *c20Env) makeRun(d *c20Dag, kind string) bool {
	switch kind {
	case "finished", "failed":
		out := vexec.Run(e.spec(d, kind), &vexec.RunOpts{Dir: e.env.Root, KeepDirs: true, Quiet: true})
		if out.Inconclusive != "" || out.SetupErr != "" || out.ReqID == "" {
			e.c.Inconclusive("c20: producing a " + kind + " run failed: " + out.Inconclusive + out.SetupErr)
			return false
		}
		d.Runs = append(d.Runs, &c20Run{Req: out.ReqID, Kind: kind, Steps: d.Steps})
	case "crashed":
		// what a killed process leaves: the last recorded line still says running
		if len(d.Runs) == 0 && !e.makeRun(d, "finished") {
			return false
		}
		loc := filepath.Join(e.env.DAGs, d.ID+".yaml")
		db := jsondb.New(e.env.Data, false)
		src, err := db.FindByRequestID(loc, d.Runs[len(d.Runs)-1].Req)
		if err != nil {
			e.c.Inconclusive("c20: cannot read back a run to derive a crashed one: " + err.Error())
			return false
		}
		e.nCase++
		st := *src.Status
		st.RequestID = fmt.Sprintf("crash%03d-%d-%d", e.nCase, e.idx, os.Getpid())
		st.Status, st.StatusText = dagsched.StatusRunning, dagsched.StatusRunning.String()
		st.Nodes = append([]*model.Node(nil), src.Status.Nodes...)
		if n := len(st.Nodes); n > 0 {
			last := *st.Nodes[n-1]
			last.Status, last.StatusText = dagsched.NodeStatusRunning, dagsched.NodeStatusRunning.String()
			last.FinishedAt = "-"
			st.Nodes[n-1] = &last
		}
		st.FinishedAt = "-"
		start := time.Now().Add(-time.Duration(60-e.nCase) * time.Second)
		st.StartedAt = model.FormatTime(start)
		w := jsondb.New(e.env.Data, false)
		if err := w.Open(loc, start, st.RequestID); err != nil {
			return false
		}
		_ = w.Write(&st)
		_ = w.Close()
		d.Runs = append(d.Runs, &c20Run{Req: st.RequestID, Kind: "crashed", Steps: d.Steps})
	case "running", "running-in-failure-handler", "running-in-exit-handler":
		entered := make(chan struct{})
		var once sync.Once
		d.held = make(chan *vexec.Outcome, 1)
		d.heldCase, d.heldGate, d.phase = nil, "", kind
		e.ops = append(e.ops, fmt.Sprintf("(%s has a live run held in phase %q)", d.ID, kind))
		sp := e.spec(d, kind)
		isStep := map[string]bool{}
		for _, n := range d.Steps {
			isStep[n] = true
		}
		go func() {
			d.held <- vexec.Run(sp, &vexec.RunOpts{Dir: e.env.Root, KeepDirs: true, Quiet: true, HangBound: 30 * time.Second, Watchdog: time.Hour,
				OnRunEnter: func(cs *vexec.Case, step string, _ int, _ map[string]dagsched.NodeState) {
					if kind == "running" || !isStep[step] {
						once.Do(func() {
							if kind != "running" {
								d.heldCase, d.heldGate = cs, step
							}
							close(entered)
						})
					}
				}})
		}()
		select {
		case <-entered:
		case <-time.After(20 * time.Second):
			e.c.Inconclusive("c20: the held run did not start")
			return false
		}
		// the socket answers?
		loc := filepath.Join(e.env.DAGs, d.ID+".yaml")
		ok := false
		for dl := time.Now().Add(15 * time.Second); time.Now().Before(dl) && !ok; {
			// (what the agent answers is the subject of the check; here only its request id is needed)
			if s, err := e.env.Client.GetStatus(loc); err == nil && s.Status != nil && s.Status.RequestID != "" && !d.hasRun(s.Status.RequestID) {
				ok = true
				d.heldReq = s.Status.RequestID
			} else {
				time.Sleep(5 * time.Millisecond)
			}
		}
		if !ok {
			e.c.Inconclusive("c20: the held run does not answer with its request id")
			return false
		}
		d.Running = true
	}
	return true
}

func (d *c20Dag) hasRun(req string) bool {
	for _, r := range d.Runs {
		if r.Req == req {
			return true
		}
	}
	return false
}

// endHeld waits for the held run to finish (after a stop reached it).
func (e *c20Env) endHeld(d *c20Dag, limit time.Duration) bool {
	if d.heldCase != nil {
		// a stop does not interrupt a lifecycle handler: let the held handler return
		d.heldCase.Release(d.heldGate)
	}
	select {
	case out := <-d.held:
		d.Running = false
		kind := "canceled"
		if out.LastStatus != nil {
			kind = out.LastStatus.Status.String()
		}
		d.Runs = append(d.Runs, &c20Run{Req: out.ReqID, Kind: kind, Steps: d.Steps})
		return true
	case <-time.After(limit):
		return false
	}
}

func unquoteLikeStart(s string) string {
	if len(s) > 1 && s[0] == '"' && s[len(s)-1] == '"' {
		return s[1 : len(s)-1]
	}
	return s
}

var c20Params = []string{"", "a", "a b", "x=1 y=2", `p="hello world"`, `"quoted"`, "üñí €", "a=b=c", "$HOME `x`", `back\slash`, "tab\there", "  lead", "trail  ", `"`, `""`, `'single'`, "--flag -p", "1 2 3 4 5 6 7 8 9 10 11"}

func jsonMap(b []byte) map[string]any {
	var m map[string]any
	_ = json.Unmarshal(b, &m)
	return m
}

func lastLine(path string) []byte {
	b, err := os.ReadFile(path)
	if err != nil {
		return nil
	}
	lines := bytes.Split(bytes.TrimRight(b, "\n"), []byte("\n"))
	return lines[len(lines)-1]
}

func c20Sequence(c *core.Ctx, idx int) {
	r := c.Rand("seq", idx)
	root, err := os.MkdirTemp(c.Scratch, "c20-")
	if err != nil {
		c.Inconclusive("mkdtemp")
		return
	}
	defer os.RemoveAll(root)
	self, _ := os.Executable()
	wrapper := filepath.Join(root, "recorder.sh")
	_ = os.WriteFile(wrapper, []byte("#!/bin/sh\nexec "+self+" c20rec \"$@\"\n"), 0755)
	recLog := filepath.Join(root, "spawns.log")
	os.Setenv("VERIF_C20_LOG", recLog)
	empty := filepath.Join(root, "cwd")
	_ = os.MkdirAll(empty, 0755)
	_ = os.Chdir(empty)
	env, err := apih.New(root, wrapper, apih.Auth{}, false)
	if err != nil {
		c.Inconclusive("apih: " + err.Error())
		return
	}
	e := &c20Env{c: c, idx: idx, r: r, env: env, rec: recLog, seen: map[string]bool{}}
	c.Begin(idx, map[string]any{"sequence": idx})
	defer c.End(idx)
	// three DAGs with histories made by the real agent
	for i := 0; i < 3; i++ {
		d := &c20Dag{ID: fmt.Sprintf("c20s%dd%d", idx, i), Steps: []string{"s1", "s2", "s3"}[:1+r.Intn(3)]}
		e.dags = append(e.dags, d)
		switch r.Intn(6) {
		case 0: // never run: only the definition exists
			_ = os.WriteFile(filepath.Join(env.DAGs, d.ID+".yaml"), []byte(vexec.BuildYAML(e.spec(d, "finished"), root)), 0644)
		default:
			n := 1 + r.Intn(3)
			for k := 0; k < n; k++ {
				if !e.makeRun(d, []string{"finished", "finished", "failed", "crashed"}[r.Intn(4)]) {
					return
				}
			}
		}
	}
	if r.Intn(3) != 0 {
		if !e.makeRun(e.dags[r.Intn(3)], []string{"running", "running", "running-in-failure-handler", "running-in-exit-handler"}[r.Intn(4)]) {
			return
		}
	}
	defer func() {
		for _, d := range e.dags {
			if d.Running {
				_ = e.env.Client.Stop(mustDAG(e, d))
				e.endHeld(d, 30*time.Second)
			}
		}
	}()
	state := func(d *c20Dag) string {
		switch {
		case d.Running:
			return "running"
		case len(d.Runs) == 0:
			return "never-run"
		}
		return d.Runs[len(d.Runs)-1].Kind
	}
	nact := c.Pick(14, 24)
	frozenAt := -1
	if idx%6 == 0 {
		frozenAt = r.Intn(nact)
	}
	for a := 0; a < nact && len(e.seen) == 0 && !e.abandon; a++ {
		if a == frozenAt {
			for _, fd := range e.dags {
				if !fd.Running && len(fd.Runs) > 0 {
					e.frozenEdit(fd)
					break
				}
			}
		}
		d := e.dags[r.Intn(len(e.dags))]
		st := state(d)
		before := e.dump()
		viewBefore := e.view()
		sp0 := len(e.spawns())
		c.Eval(1)
		c.SetAdd("states_acted_on", st)
		if d.Running {
			c.Count("actions_on_a_run_held_in:"+d.phase, 1)
		}
		settle := func(wantSpawns int) [][]string {
			deadline := time.Now().Add(5 * time.Second)
			for {
				sp := e.spawns()
				if len(sp)-sp0 >= wantSpawns && wantSpawns > 0 {
					time.Sleep(20 * time.Millisecond)
					return e.spawns()[sp0:]
				}
				if wantSpawns == 0 {
					time.Sleep(40 * time.Millisecond)
					return e.spawns()[sp0:]
				}
				if time.Now().After(deadline) {
					return sp[sp0:]
				}
				time.Sleep(5 * time.Millisecond)
			}
		}
		unchanged := func(what string) {
			c.Count("obligations", 1)
			if diff := apih.Diff(before, e.dump()); len(diff) > 0 {
				e.violate("refused-changed|"+what, fmt.Sprintf("%s on DAG in state %s was refused or malformed but changed the stores: %v", what, st, diff))
			}
			c.Count("obligations", 1)
			after := e.view()
			for id, v := range viewBefore {
				if a, ok := after[id]; ok && a != v {
					e.violate("refused-changed-view|"+what, fmt.Sprintf("%s on DAG in state %s was refused or malformed but what the API shows of DAG %s (status and history) changed: %s", what, st, id, firstDiff(v, a)))
				}
			}
		}
		noSpawn := func(what string, got [][]string) {
			c.Count("obligations", 1)
			if len(got) > 0 {
				e.violate("refused-spawned|"+what, fmt.Sprintf("%s on DAG in state %s must not start anything but spawned %v", what, st, got))
			}
		}
		loc := filepath.Join(env.DAGs, d.ID+".yaml")
		switch k := r.Intn(20); {
		case k < 4: // start
			p := c20Params[r.Intn(len(c20Params))]
			body := map[string]string{"action": "start"}
			if p != "" || r.Intn(2) == 0 {
				body["params"] = p
			}
			var code int
			if st == "running" {
				code = e.postLive(d.ID, body, func(c int) bool { return c < 400 })
			} else {
				code = e.post(d.ID, body)
			}
			e.ops = append(e.ops, fmt.Sprintf("start %s[%s] params=%q -> %d", d.ID, st, p, code))
			c.Count("action_start", 1)
			if e.abandon {
				break
			}
			if st == "running" {
				got := settle(0)
				c.Count("obligations", 1)
				if code < 400 {
					e.violate("start-while-running", fmt.Sprintf("start of a running DAG was accepted (HTTP %d); %s", code, e.probe(d)))
				}
				noSpawn("start-while-running", got)
				unchanged("start-while-running")
			} else {
				got := settle(1)
				c.Count("obligations", 2)
				switch {
				case code != 200:
					e.violate("start-refused|"+st, fmt.Sprintf("start of a DAG in state %s was refused (HTTP %d)", st, code))
				case len(got) != 1:
					e.violate("start-spawn-count", fmt.Sprintf("an accepted start spawned %d processes: %v", len(got), got))
				default:
					argv := got[0]
					gotP, hasP := "", false
					for i, x := range argv {
						if x == "-p" && i+1 < len(argv) {
							gotP, hasP = unquoteLikeStart(argv[i+1]), true
						}
					}
					if len(argv) == 0 || argv[0] != "start" || argv[len(argv)-1] != loc {
						e.violate("start-argv", fmt.Sprintf("start spawned %v, expected start ... %s", argv, loc))
					} else if (p == "") == hasP || gotP != p {
						e.violate("start-params", fmt.Sprintf("start with params %q handed over %q (argv %q)", p, gotP, argv))
					}
					c.Count("starts_with_params_checked", 1)
				}
				unchanged("accepted-start")
			}
		case k < 7: // stop
			var code int
			if st == "running" {
				code = e.postLive(d.ID, map[string]string{"action": "stop"}, func(c int) bool { return c != 200 })
				if code == 200 {
					e.abandon = false // a stop that got through leaves the model intact
				}
			} else {
				code = e.post(d.ID, map[string]string{"action": "stop"})
			}
			e.ops = append(e.ops, fmt.Sprintf("stop %s[%s] -> %d", d.ID, st, code))
			c.Count("action_stop", 1)
			c.Count("obligations", 1)
			if e.abandon {
				break
			}
			if st == "running" {
				if code != 200 {
					e.violate("stop-refused-running", fmt.Sprintf("stop of a running DAG was refused (HTTP %d)", code))
				} else if !e.endHeld(d, 30*time.Second) {
					e.violate("stop-not-delivered", "stop of a running DAG was accepted but the run never received it (still running after 30 s)")
				} else {
					c.Count("stops_delivered", 1)
				}
			} else {
				got := settle(0)
				if code < 400 {
					e.violate("stop-not-running|"+st, fmt.Sprintf("stop of a DAG that is not running (%s) was accepted (HTTP %d)", st, code))
				}
				noSpawn("stop-not-running", got)
				unchanged("stop-not-running")
			}
		case k < 14: // mark-success / mark-failed
			action := []string{"mark-success", "mark-failed"}[r.Intn(2)]
			body := map[string]string{"action": action}
			var run *c20Run
			reqClass, stepClass := "valid", "valid"
			switch r.Intn(8) {
			case 0:
				reqClass = "missing"
			case 1:
				reqClass = "unknown"
				body["requestId"] = "no-such-request-id"
			default:
				if len(d.Runs) > 0 {
					run = d.Runs[r.Intn(len(d.Runs))]
					body["requestId"] = run.Req
				} else if d.Running {
					reqClass = "live-run"
					body["requestId"] = d.heldReq
				} else {
					reqClass = "missing"
				}
			}
			step := ""
			switch r.Intn(8) {
			case 0:
				stepClass = "missing"
			case 1:
				stepClass = "unknown"
				step = "no-such-step"
			default:
				step = d.Steps[r.Intn(len(d.Steps))]
			}
			if step != "" {
				body["step"] = step
			}
			var file string
			var prev []byte
			if run != nil {
				if sf, err := jsondb.New(env.Data, false).FindByRequestID(loc, run.Req); err == nil {
					file = sf.File
					prev = lastLine(file)
				}
			}
			var code int
			if st == "running" {
				code = e.postLive(d.ID, body, func(c int) bool { return c < 400 })
			} else {
				code = e.post(d.ID, body)
			}
			e.ops = append(e.ops, fmt.Sprintf("%s %s[%s] req=%s step=%s -> %d", action, d.ID, st, reqClass, stepClass, code))
			c.Count("action_mark", 1)
			if e.abandon {
				break
			}
			got := settle(0)
			noSpawn(action, got)
			valid := run != nil && reqClass == "valid" && stepClass == "valid" && file != ""
			switch {
			case st == "running":
				c.Count("obligations", 1)
				c.Count("marks_while_running", 1)
				if code < 400 {
					e.violate("mark-while-running", fmt.Sprintf("%s was accepted while the DAG is running (HTTP %d)", action, code))
				}
				unchanged(action + "-while-running")
			case !valid:
				c.Count("obligations", 1)
				if code < 400 {
					e.violate("mark-malformed-accepted|req-"+reqClass+"|step-"+stepClass, fmt.Sprintf("%s with request id %s / step %s was accepted (HTTP %d)", action, reqClass, stepClass, code))
				}
				unchanged(action + "-malformed")
			case code != 200:
				c.Count("marks_refused_valid", 1)
				unchanged(action + "-refused")
			default:
				c.Count("obligations", 3)
				c.Count("marks_accepted", 1)
				diff := apih.Diff(before, e.dump())
				if len(diff) != 1 || diff[0] != "~ "+file {
					e.violate("mark-changed-other", fmt.Sprintf("accepted %s of step %s in run %s changed %v, expected exactly [~ %s]", action, step, run.Req, diff, file))
					break
				}
				all, _ := os.ReadFile(file)
				lines := bytes.Split(bytes.TrimRight(all, "\n"), []byte("\n"))
				if len(lines) < 2 || !bytes.Equal(lines[len(lines)-2], prev) {
					e.violate("mark-not-appended", fmt.Sprintf("accepted %s did not append exactly one line to the run's file (%d lines now)", action, len(lines)))
					break
				}
				pm, nm := jsonMap(prev), jsonMap(lines[len(lines)-1])
				want := map[string]string{"mark-success": "finished", "mark-failed": "failed"}[action]
				// apply the one permitted change to the previous line and compare
				if nodes, ok := pm["Nodes"].([]any); ok {
					for _, n := range nodes {
						nmap, _ := n.(map[string]any)
						if stp, _ := nmap["Step"].(map[string]any); stp != nil && stp["Name"] == step {
							nnodes, _ := nm["Nodes"].([]any)
							for _, nn := range nnodes {
								nnm, _ := nn.(map[string]any)
								if s2, _ := nnm["Step"].(map[string]any); s2 != nil && s2["Name"] == step {
									if nnm["StatusText"] != want {
										e.violate("mark-wrong-state", fmt.Sprintf("%s recorded step %s as %v", action, step, nnm["StatusText"]))
									}
									nmap["Status"], nmap["StatusText"] = nnm["Status"], nnm["StatusText"]
								}
							}
						}
					}
				}
				if run.Kind == "crashed" && pm["StatusText"] == "running" && nm["StatusText"] == "failed" {
					pm["Status"], pm["StatusText"] = nm["Status"], nm["StatusText"]
					c.Count("marks_on_crashed_run_relabelled", 1)
				}
				if !reflect.DeepEqual(pm, nm) {
					var keys []string
					for k := range nm {
						if !reflect.DeepEqual(pm[k], nm[k]) {
							keys = append(keys, k)
						}
					}
					e.violate("mark-changed-more", fmt.Sprintf("accepted %s of step %s changed more than that step's state: fields %v differ", action, step, keys))
				}
			}
		case k < 15: // retry
			body := map[string]string{"action": "retry"}
			withReq := len(d.Runs) > 0 && r.Intn(3) != 0
			if withReq {
				body["requestId"] = d.Runs[r.Intn(len(d.Runs))].Req
			}
			code := e.post(d.ID, body)
			e.ops = append(e.ops, fmt.Sprintf("retry %s[%s] withReq=%v -> %d", d.ID, st, withReq, code))
			c.Count("action_retry", 1)
			if !withReq {
				got := settle(0)
				c.Count("obligations", 1)
				if code < 400 {
					e.violate("retry-without-request-id", fmt.Sprintf("retry without a request id was accepted (HTTP %d)", code))
				}
				noSpawn("retry-without-request-id", got)
				unchanged("retry-without-request-id")
			} else {
				got := settle(1)
				c.Count("obligations", 1)
				if code == 200 && (len(got) != 1 || got[0][0] != "retry" || got[0][1] != "--req="+body["requestId"] || got[0][len(got[0])-1] != loc) {
					e.violate("retry-argv", fmt.Sprintf("accepted retry of %s spawned %v", body["requestId"], got))
				}
				unchanged("retry")
			}
		case k < 16: // suspend
			v := []string{"true", "false"}[r.Intn(2)]
			code := e.post(d.ID, map[string]string{"action": "suspend", "value": v})
			e.ops = append(e.ops, fmt.Sprintf("suspend %s[%s] %s -> %d", d.ID, st, v, code))
			c.Count("action_suspend", 1)
			got := settle(0)
			noSpawn("suspend", got)
			c.Count("obligations", 1)
			for _, df := range apih.Diff(before, e.dump()) {
				if !strings.Contains(df, env.Suspend) {
					e.violate("suspend-changed-other", fmt.Sprintf("suspend changed %s", df))
				}
			}
		case k < 18: // unknown action / missing action / malformed
			var code int
			what := ""
			switch r.Intn(4) {
			case 0:
				what = "unknown-action"
				code = e.post(d.ID, map[string]string{"action": "explode"})
			case 1:
				what = "no-action"
				code = e.post(d.ID, map[string]string{"value": "x"})
			case 2:
				what = "rename-empty"
				code = e.post(d.ID, map[string]string{"action": "rename", "value": ""})
			default:
				what = "save-invalid"
				code = e.post(d.ID, map[string]string{"action": "save", "value": ": : ["})
			}
			e.ops = append(e.ops, fmt.Sprintf("%s %s[%s] -> %d", what, d.ID, st, code))
			c.Count("action_malformed", 1)
			got := settle(0)
			c.Count("obligations", 1)
			if code < 400 {
				e.violate("malformed-accepted|"+what, fmt.Sprintf("malformed action %s was accepted (HTTP %d)", what, code))
			}
			noSpawn(what, got)
			unchanged(what)
		default: // unknown DAG
			action := []string{"start", "stop", "mark-success", "retry", "rename"}[r.Intn(5)]
			code := e.post("no-such-dag", map[string]string{"action": action, "requestId": "x", "step": "s1", "value": "y"})
			e.ops = append(e.ops, fmt.Sprintf("%s on unknown DAG -> %d", action, code))
			c.Count("action_unknown_dag", 1)
			got := settle(0)
			c.Count("obligations", 1)
			if code < 400 {
				e.violate("unknown-dag-accepted|"+action, fmt.Sprintf("%s on a DAG that does not exist was accepted (HTTP %d)", action, code))
			}
			noSpawn("unknown-dag", got)
			unchanged("unknown-dag-" + action)
		}
	}
	if os.Getenv("VERIF_C20_DUMP") != "" {
		for _, o := range e.ops {
			fmt.Fprintln(os.Stderr, "C20-OP", o)
		}
	}
	c.Sig(idx, e.ops)
	if idx%40 == 0 {
		ops := e.ops
		if len(ops) > 10 {
			ops = ops[:10]
		}
		c.Sample(map[string]any{"sequence": idx, "first_actions": ops})
	}
}

func firstDiff(a, b string) string {
	i := 0
	for i < len(a) && i < len(b) && a[i] == b[i] {
		i++
	}
	lo := i - 80
	if lo < 0 {
		lo = 0
	}
	return fmt.Sprintf("at byte %d: before ...%q, after ...%q", i, clip(a[lo:], 200), clip(b[lo:], 200))
}

// c20Frozen: a status edit that passes the handler's guard but is refused further down (the
// agent's socket accepts and never answers), then an accepted edit of another step of the run.
func (e *c20Env) frozenEdit(d *c20Dag) {
	c := e.c
	run := d.Runs[len(d.Runs)-1]
	loc := filepath.Join(e.env.DAGs, d.ID+".yaml")
	sf, err := jsondb.New(e.env.Data, false).FindByRequestID(loc, run.Req)
	if err != nil {
		return
	}
	viewBefore := e.view()
	before := e.dump()
	if !e.freeze(d) {
		return
	}
	step := d.Steps[e.r.Intn(len(d.Steps))]
	action := []string{"mark-success", "mark-failed"}[e.r.Intn(2)]
	code := e.post(d.ID, map[string]string{"action": action, "requestId": run.Req, "step": step})
	e.unfreeze(d)
	e.ops = append(e.ops, fmt.Sprintf("%s %s[agent socket accepts, never answers] req=latest step=%s -> %d", action, d.ID, step, code))
	c.Eval(1)
	c.Count("edits_against_an_unresponsive_agent", 1)
	c.Count("obligations", 2)
	if code < 400 {
		// accepted: then it must have changed exactly that step; the general oracle is not repeated here
		c.Count("edits_against_an_unresponsive_agent_accepted", 1)
		return
	}
	if diff := apih.Diff(before, e.dump()); len(diff) > 0 {
		e.violate("refused-changed|"+action+"-unresponsive-agent", fmt.Sprintf("%s was refused (HTTP %d, the agent's socket does not answer) but changed the stores: %v", action, code, diff))
	}
	after := e.view()
	for id, v := range viewBefore {
		if a, ok := after[id]; ok && a != v {
			e.violate("refused-changed-view|"+action+"-unresponsive-agent", fmt.Sprintf("%s of step %s was refused (HTTP %d, the agent's socket does not answer) but what the API shows of DAG %s changed: %s", action, step, code, id, firstDiff(v, a)))
			return
		}
	}
	// an accepted edit of ANOTHER step of the same run must change that step only
	if len(d.Steps) < 2 {
		return
	}
	other := d.Steps[0]
	if other == step {
		other = d.Steps[1]
	}
	prev := lastLine(sf.File)
	code = e.post(d.ID, map[string]string{"action": "mark-failed", "requestId": run.Req, "step": other})
	e.ops = append(e.ops, fmt.Sprintf("mark-failed %s req=latest step=%s (after the refused edit of %s) -> %d", d.ID, other, step, code))
	if code != 200 {
		return
	}
	c.Count("obligations", 1)
	c.Count("edits_after_a_refused_edit", 1)
	pm, nm := jsonMap(prev), jsonMap(lastLine(sf.File))
	stepState := func(m map[string]any, name string) any {
		nodes, _ := m["Nodes"].([]any)
		for _, n := range nodes {
			nmap, _ := n.(map[string]any)
			if stp, _ := nmap["Step"].(map[string]any); stp != nil && stp["Name"] == name {
				return nmap["StatusText"]
			}
		}
		return nil
	}
	for _, n := range d.Steps {
		if n != other && !reflect.DeepEqual(stepState(pm, n), stepState(nm, n)) {
			e.violate("mark-changed-more|after-refused-edit", fmt.Sprintf("accepted mark-failed of step %s also changed step %s from %v to %v (the edit of %s refused just before has become durable)", other, n, stepState(pm, n), stepState(nm, n), step))
		}
	}
}

// probe asks the held run's agent directly, for the text of a violation: whether its socket
// is there and what it answers.
func (e *c20Env) probe(d *c20Dag) string {
	dg := mustDAG(e, d)
	if dg == nil {
		return "probe: the definition cannot be loaded"
	}
	addr := dg.SockAddr()
	_, serr := os.Stat(addr)
	t0 := time.Now()
	conn, derr := net.DialTimeout("unix", addr, 3*time.Second)
	ans := ""
	if derr == nil {
		_ = conn.SetDeadline(time.Now().Add(5 * time.Second))
		_, _ = conn.Write([]byte("GET /status HTTP/1.0\r\n\r\n"))
		b, rerr := io.ReadAll(conn)
		conn.Close()
		ans = fmt.Sprintf("%d bytes, error %v, begins %q", len(b), rerr, clip(string(b), 160))
	}
	return fmt.Sprintf("probe of the held run's agent: socket %s stat error %v; dial error %v; answer after %d ms: %s", addr, serr, derr, time.Since(t0).Milliseconds(), ans)
}

func mustDAG(e *c20Env, d *c20Dag) *dag.DAG {
	s, _ := e.env.Client.GetStatus(filepath.Join(e.env.DAGs, d.ID+".yaml"))
	if s != nil {
		return s.DAG
	}
	return nil
}

func c20Body(c *core.Ctx) {
	if c.Mode == "successor" {
		c20Successor(c)
		return
	}
	n := c.Pick(192, 2400)
	if c.Race {
		n = c.Pick(24, 240)
	}
	for idx := 0; idx < n; idx++ {
		if !c.Mine(idx) {
			continue
		}
		c20Sequence(c, idx)
	}
}

func init() {
	core.Register(&core.Prop{ID: "C20", Level: "exploration", Body: c20Body, CrashKey: crashKeyGeneric, MinDistinct: 20,
		Passes: func(tier string) []core.Pass {
			return []core.Pass{
				{Name: "main", Mode: "api", Shards: 16, Timeout: 60 * time.Minute},
				{Name: "race", Mode: "api", Race: true, Shards: 8, Timeout: 60 * time.Minute},
				{Name: "successor", Mode: "successor", Shards: 16, Timeout: 60 * time.Minute},
			}
		},
		Rule:        "192 (2400) sequences. Per sequence: three DAG definitions whose histories are produced by the real agent under the scripted executor (1-3 runs each: finished, failed, or crashed = last recorded line still running and no socket; or never run), in two of three sequences one DAG is RUNNING (an in-process agent held open by a step that never returns, or held in its onFailure / onExit handler, real unix socket; every fourth such run has a 1.5 MB step description, so that the status document the agent serves is above 1 MiB). One sequence in six contains an edit against an agent whose socket accepts and never answers, followed by an accepted edit of another step of the same run. Then 14 (24) actions against the assembled go-swagger API (swagger validation in the loop) with a recorder as the executable: start (18 parameter strings: empty, spaces, quotes, '=', $, backticks, backslash, unicode, leading/trailing blanks), stop, mark-success / mark-failed (valid, missing, unknown request id and step; older and latest runs; crashed runs), retry (with/without request id), suspend, unknown action, missing action, empty rename, invalid save, actions on an unknown DAG. Oracle per action from ground truth (the harness knows which DAG it holds running): start while running => 4xx, no spawn, stores byte-identical; start otherwise => exactly one spawn whose -p argument, unquoted as cmd/start.go does, equals the request's params byte for byte (no -p when empty); stop when not running => 4xx, nothing changes; stop when running => the held agent's run ends; mark-* while running => 4xx, nothing changes; accepted mark => exactly one file changes (the addressed run's), exactly one line is appended, and that line differs from the previous last line only in the addressed step's state (plus running->failed relabelling of a crashed run); malformed / unknown => 4xx/5xx and the byte-level dump of data, DAGs and suspend directories is identical. Successor pass: 32 (480) rounds in which a run of a DAG ends (finished / failed) and the DAG's next run (held in a step, in its onExit or onFailure handler) begins while the ended run's status-socket server goroutine is still on its way out (parked by the hook sock.serve.exiting until the successor answers on the same socket address, then released 0 / 5 / 60 ms later): the successor is the running run - a start is refused and spawns nothing, an edit of the recorded run is refused and changes nothing, a stop is accepted and reaches it. Non-trivial/distinct = sequences (by their action lists); evaluations = actions.",
		Assumptions: []string{"newlines in start parameters are not generated (client.escapeArg rewrites them deliberately)", "suspend with a non-boolean value is not judged"}})
}
