package props

// C12 — a finished step's log holds everything the step printed.
// Real scheduler + real command executor; the step is an emitter child process
// that prints a known byte pattern (stdout and stderr from disjoint alphabets,
// each byte a function of its offset and of the attempt number), so loss,
// duplication and reordering are visible after projecting a file onto one
// alphabet.

import (
	"bytes"
	"context"
	"fmt"
	"os"
	"path/filepath"
	"strconv"
	"strings"
	"time"

	"github.com/ErdemOzgen/blackdagger/internal/dag"
	dagsched "github.com/ErdemOzgen/blackdagger/internal/dag/scheduler"
	"github.com/ErdemOzgen/blackdagger/verifh/core"
	"github.com/ErdemOzgen/blackdagger/verifh/vexec"
)

// emitted byte at offset i of attempt a; stream 0 = stdout (a-z, newline), 1 = stderr (A-Z, blank)
func emitByte(stream, attempt, i int) byte {
	if i%64 == 63 {
		if stream == 0 {
			return '\n'
		}
		return ' '
	}
	base := byte('a')
	if stream == 1 {
		base = 'A'
	}
	return base + byte((i*7+attempt*3+i/64)%26)
}

func emitPattern(stream, attempt, n int) []byte {
	b := make([]byte, n)
	for i := range b {
		b[i] = emitByte(stream, attempt, i)
	}
	return b
}

func project(b []byte, stream int) []byte {
	out := make([]byte, 0, len(b))
	for _, c := range b {
		if stream == 0 && ((c >= 'a' && c <= 'z') || c == '\n') {
			out = append(out, c)
		}
		if stream == 1 && ((c >= 'A' && c <= 'Z') || c == ' ') {
			out = append(out, c)
		}
	}
	return out
}

// emit <outN> <errN> <chunk> <failFirst> <counterFile>
func emitMain(args []string) int {
	if len(args) < 5 {
		return 9
	}
	outN, _ := strconv.Atoi(args[0])
	errN, _ := strconv.Atoi(args[1])
	chunk, _ := strconv.Atoi(args[2])
	failFirst, _ := strconv.Atoi(args[3])
	attempt := 1
	if b, err := os.ReadFile(args[4]); err == nil {
		n, _ := strconv.Atoi(strings.TrimSpace(string(b)))
		attempt = n + 1
	}
	_ = os.WriteFile(args[4], []byte(strconv.Itoa(attempt)), 0644)
	if chunk <= 0 {
		chunk = 1 << 20
	}
	po, pe := emitPattern(0, attempt, outN), emitPattern(1, attempt, errN)
	for len(po) > 0 || len(pe) > 0 {
		if len(po) > 0 {
			k := chunk
			if k > len(po) {
				k = len(po)
			}
			_, _ = os.Stdout.Write(po[:k])
			po = po[k:]
		}
		if len(pe) > 0 {
			k := chunk
			if k > len(pe) {
				k = len(pe)
			}
			_, _ = os.Stderr.Write(pe[:k])
			pe = pe[k:]
		}
	}
	if attempt <= failFirst {
		return 1
	}
	return 0
}

func init() { core.Sub["emit"] = emitMain }

type c12Case struct {
	OutN       int  `json:"stdoutBytes"`
	ErrN       int  `json:"stderrBytes"`
	Chunk      int  `json:"chunk"`
	StdoutFile bool `json:"stdoutFile"`
	StderrFile bool `json:"stderrFile"`
	OutputVar  bool `json:"outputVar"`
	Script     bool `json:"script"`
	FailFirst  int  `json:"failFirstAttempts"`
	Limit      int  `json:"retryLimit"`
	Siblings   int  `json:"siblings"`
	// Shared: 1 = an earlier step "pre" of the same run has the same stdout: / stderr: files
	// (its PreN bytes per stream must still be there at the end); 2 = the step's stdout: and
	// stderr: name one file
	Shared int `json:"sharedFiles,omitempty"`
	PreN   int `json:"preBytes,omitempty"`
}

func (cs c12Case) key() string {
	cfg := ""
	if cs.StdoutFile {
		cfg += "+stdout"
	}
	if cs.StderrFile {
		cfg += "+stderr"
	}
	if cs.OutputVar {
		cfg += "+output"
	}
	if cs.Script {
		cfg += "+script"
	}
	if cfg == "" {
		cfg = "plain"
	}
	if cs.Shared == 1 {
		cfg += "+shared-with-earlier-step"
	}
	if cs.Shared == 2 {
		cfg += "+one-file-for-both"
	}
	retry := "no-retry"
	if cs.FailFirst > 0 {
		retry = "after-retry"
	}
	return strings.TrimPrefix(cfg, "+") + "|" + retry
}

func c12Cases(c *core.Ctx) []c12Case {
	sizes := []int{0, 1, 4095, 4096, 4097, 65536}
	var out []c12Case
	for cfg := 0; cfg < 16; cfg++ {
		for retry := 0; retry <= 2; retry++ {
			for stream := 0; stream < 3; stream++ {
				for si, sz := range sizes {
					cs := c12Case{StdoutFile: cfg&1 != 0, StderrFile: cfg&2 != 0, OutputVar: cfg&4 != 0, Script: cfg&8 != 0,
						FailFirst: retry, Limit: 2, Chunk: []int{0, 1000, 4096, 7}[(cfg+si+retry)%4]}
					if retry == 2 && (cfg+si)%5 == 0 {
						cs.Limit = 1 // more failures than the limit allows: the step ends failed
					}
					switch stream {
					case 0:
						cs.OutN = sz
					case 1:
						cs.ErrN = sz
					default:
						cs.OutN, cs.ErrN = sz, sizes[(si+2)%len(sizes)]
					}
					if cs.Chunk == 7 && cs.OutN+cs.ErrN > 20000 {
						cs.Chunk = 4096
					}
					capOutput(&cs)
					out = append(out, cs)
				}
			}
		}
	}
	// output capture far above one pipe buffer (the step is alone: see capOutput)
	for _, sz := range []int{200000, 1 << 20} {
		for cfg := 0; cfg < 4; cfg++ {
			out = append(out, c12Case{OutN: sz, ErrN: 1000 * cfg, Chunk: []int{0, 4096, 65536, 1000}[cfg], OutputVar: true, StdoutFile: cfg&1 != 0, StderrFile: cfg&2 != 0, Limit: 2})
		}
	}
	// redirect files shared between steps of one run, and one file for both streams
	for cfg := 0; cfg < 8; cfg++ {
		for si, sz := range sizes {
			for _, pre := range []int{1, 3000, 70000} {
				cs := c12Case{StdoutFile: true, StderrFile: cfg&1 != 0, OutputVar: cfg&2 != 0, Script: cfg&4 != 0, Limit: 2, FailFirst: (cfg + si) % 2,
					OutN: sz, ErrN: sizes[(si+3)%len(sizes)], Chunk: []int{0, 1000, 4096}[(cfg+si)%3], Shared: 1, PreN: pre}
				out = append(out, cs)
				if pre == 3000 {
					cs.Shared, cs.StderrFile, cs.PreN = 2, true, 0
					out = append(out, cs)
				}
			}
		}
	}
	// large and random sizes
	r := c.Rand("c12", 0)
	nrand := c.Pick(300, 4000)
	for i := 0; i < nrand; i++ {
		cfg := r.Intn(16)
		cs := c12Case{StdoutFile: cfg&1 != 0, StderrFile: cfg&2 != 0, OutputVar: cfg&4 != 0, Script: cfg&8 != 0,
			FailFirst: r.Intn(3), Limit: 2, Chunk: []int{0, 1, 13, 512, 4096, 65536}[r.Intn(6)], Siblings: r.Intn(3)}
		switch r.Intn(6) {
		case 0:
			cs.OutN, cs.ErrN = 1<<20, r.Intn(3000)
		case 1:
			cs.OutN, cs.ErrN = r.Intn(3000), 1<<20
		default:
			cs.OutN, cs.ErrN = r.Intn(20000), r.Intn(20000)
		}
		if cs.Chunk <= 13 && cs.OutN+cs.ErrN > 30000 {
			cs.Chunk = 512
		}
		if k := r.Intn(8); k == 0 && (cs.StdoutFile || cs.StderrFile) {
			cs.Shared, cs.PreN = 1, 1+r.Intn(9000)
		} else if k == 1 && cs.StdoutFile && cs.StderrFile {
			cs.Shared = 2
		}
		capOutput(&cs)
		out = append(out, cs)
	}
	return out
}

// capOutput keeps a captured output below the kernel's per-string exec limit.
func capOutput(cs *c12Case) {
	// the captured value becomes an environment string (kernel limit 128 KiB per
	// string): above that no further process can be started, so big captured
	// outputs are only used when the step is alone
	if cs.OutputVar && cs.OutN > 100000 && cs.Siblings > 0 {
		cs.OutN = 100000
	}
}

func c12Run(c *core.Ctx, idx int, cs c12Case) {
	root, err := os.MkdirTemp(c.Scratch, "c12-")
	if err != nil {
		c.Inconclusive("mkdtemp")
		return
	}
	defer os.RemoveAll(root)
	self, _ := os.Executable()
	logDir := filepath.Join(root, "logs")
	_ = os.MkdirAll(logDir, 0755)
	mk := func(name string, cs c12Case) dag.Step {
		counter := filepath.Join(root, name+".attempt")
		cmdline := fmt.Sprintf("%s emit %d %d %d %d %s", self, cs.OutN, cs.ErrN, cs.Chunk, cs.FailFirst, counter)
		st := dag.Step{Name: name, Dir: root, ExecutorConfig: dag.ExecutorConfig{Config: map[string]any{}}}
		if cs.Script {
			// as the loader builds `command: sh` + `script:` (CmdWithArgs is what resets the
			// argument list before the script file name is appended, at every attempt)
			st.Command, st.CmdWithArgs = "sh", "sh"
			st.Script = "exec " + cmdline + "\n"
		} else {
			st.CmdWithArgs = cmdline
			st.Command = self
		}
		if cs.StdoutFile {
			st.Stdout = filepath.Join(root, name+".stdout")
		}
		if cs.StderrFile {
			st.Stderr = filepath.Join(root, name+".stderr")
		}
		if cs.Shared == 2 {
			st.Stderr = st.Stdout
		}
		if cs.OutputVar {
			st.Output = "VERIF_C12_" + strings.ToUpper(name)
		}
		if cs.Limit > 0 {
			st.RetryPolicy = &dag.RetryPolicy{Limit: cs.Limit}
		}
		return st
	}
	steps := []dag.Step{mk("main", cs)}
	if cs.Shared == 1 {
		pre := mk("pre", c12Case{OutN: cs.PreN, ErrN: cs.PreN, StdoutFile: cs.StdoutFile, StderrFile: cs.StderrFile, Chunk: cs.Chunk})
		pre.Stdout, pre.Stderr = steps[0].Stdout, steps[0].Stderr
		_ = os.WriteFile(filepath.Join(root, "pre.attempt"), []byte("10"), 0644) // its pattern differs from every attempt of main
		steps[0].Depends = []string{"pre"}
		steps = append(steps, pre)
	}
	for i := 0; i < cs.Siblings; i++ {
		steps = append(steps, mk(fmt.Sprintf("sib%d", i), c12Case{OutN: 100 * (i + 1), ErrN: 50, Limit: 0}))
	}
	g, err := dagsched.NewExecutionGraph(c13Logger, steps...)
	if err != nil {
		c.Inconclusive("graph: " + err.Error())
		return
	}
	reqID := fmt.Sprintf("c12-%06d", idx)
	sc := dagsched.New(&dagsched.Config{LogDir: logDir, Logger: c13Logger, ReqID: reqID})
	sc.VerifSetPause(time.Millisecond)
	d := &dag.DAG{Name: "c12", Location: filepath.Join(root, "c12.yaml")}
	ctx := dag.NewContext(context.Background(), d, nil, reqID, filepath.Join(root, "sched.log"))
	done := make(chan error, 1)
	go func() { done <- sc.Schedule(ctx, g, nil) }()
	select {
	case <-done:
	case <-time.After(120 * time.Second):
		c.Inconclusive(fmt.Sprintf("c12 case %+v did not finish within 120 s", cs))
		return
	}
	c.Eval(1)
	os.Unsetenv("VERIF_C12_MAIN") // a captured output must not leak into the next case's processes
	for _, n := range g.Nodes() {
		if n.Data().Step.Name != "main" {
			continue
		}
		st := n.State()
		attempts := 1
		if b, err := os.ReadFile(filepath.Join(root, "main.attempt")); err == nil {
			attempts, _ = strconv.Atoi(strings.TrimSpace(string(b)))
		}
		if attempts != st.RetryCount+1 {
			// an attempt did not run the emitter: the previous attempt's captured output (1 MiB)
			// is an environment string above the kernel's per-string exec limit, so the next
			// exec fails with E2BIG before the emitter starts (see Assumptions): what that
			// attempt "printed" is not known, nothing to compare
			c.Count("last_attempt_was_not_the_emitter", 1)
			c.SetAdd("not_the_emitter_cases", fmt.Sprintf("%s attempts=%d retryCount=%d state=%s out=%d err=%d failFirst=%d limit=%d sib=%d error=%v", cs.key(), attempts, st.RetryCount, st.Status, cs.OutN, cs.ErrN, cs.FailFirst, cs.Limit, cs.Siblings, st.Error))
			continue
		}
		wantOut, wantErr := emitPattern(0, attempts, cs.OutN), emitPattern(1, attempts, cs.ErrN)
		desc := map[string]any{"case": cs, "attempts": attempts, "state": st.Status.String(), "log": filepath.Base(st.Log)}
		c.SetAdd("final_states", st.Status.String())
		c.Count("attempts_total", int64(attempts))
		where := cs.key()
		c.Count("obligations", 1)
		if st.Log == "" {
			c.Violate(idx, "no-log-path|"+where, "the finished step has no log path in its state", desc)
			continue
		}
		logb, err := os.ReadFile(st.Log)
		if err != nil {
			c.Violate(idx, "log-missing|"+where, "the log file named in the step's state does not exist: "+err.Error(), desc)
			continue
		}
		check := func(what string, got, want []byte, file string) {
			c.Count("obligations", 1)
			c.Count("bytes_checked", int64(len(want)))
			if bytes.HasSuffix(got, want) {
				return
			}
			// first differing offset, for the report
			miss := len(want) - len(got)
			c.Violate(idx, what+"|"+where, fmt.Sprintf("%s: %s holds %d of the stream's bytes, the last attempt (#%d, state %s) wrote %d (missing %d); the file does not end with what was written",
				what, file, len(got), attempts, st.Status, len(want), miss), desc)
		}
		check("log-stdout-incomplete", project(logb, 0), wantOut, "log")
		prefix := func(what string, got, want []byte, file string) {
			c.Count("obligations", 1)
			c.Count("bytes_checked", int64(len(want)))
			c.Count("shared_file_checks", 1)
			if !bytes.HasPrefix(got, want) {
				c.Violate(idx, what+"|"+where, fmt.Sprintf("%s: the earlier step of the run wrote %d bytes to the %s it shares with this step; after the run the file (%d bytes of that stream) no longer starts with them",
					what, len(want), file, len(got)), desc)
			}
		}
		if cs.Shared == 2 {
			ob, _ := os.ReadFile(filepath.Join(root, "main.stdout"))
			c.Count("one_file_for_both_streams", 1)
			check("stderr-file-incomplete", project(ob, 1), wantErr, "file named by both stdout: and stderr:")
		} else if cs.StderrFile {
			eb, _ := os.ReadFile(filepath.Join(root, "main.stderr"))
			check("stderr-file-incomplete", project(eb, 1), wantErr, "stderr file")
			if cs.Shared == 1 {
				prefix("earlier-step-stderr-file-lost", project(eb, 1), emitPattern(1, 11, cs.PreN), "stderr file")
			}
		} else {
			check("log-stderr-incomplete", project(logb, 1), wantErr, "log")
		}
		if cs.StdoutFile {
			ob, _ := os.ReadFile(filepath.Join(root, "main.stdout"))
			check("stdout-file-incomplete", project(ob, 0), wantOut, "stdout file")
			if cs.Shared == 1 {
				prefix("earlier-step-stdout-file-lost", project(ob, 0), emitPattern(0, 11, cs.PreN), "stdout file")
			}
		}
		if cs.FailFirst > 0 && attempts > 1 {
			c.Count("cases_with_retry", 1)
		}
	}
	c.Sig(cs)
	if idx%97 == 0 {
		c.Sample(cs)
	}
}

// c12InProc: the same oracle with the scripted in-process executor, whose
// Write calls go straight into the node's writers (as the docker / ssh / http
// executors' do) instead of through os/exec's copying goroutines.
func c12InProc(c *core.Ctx) {
	n := c.Pick(600, 20000)
	if c.Race {
		n = c.Pick(200, 4000)
	}
	sizes := []int{0, 1, 100, 4095, 4096, 4097, 9000, 65536, 200000}
	for idx := 0; idx < n; idx++ {
		if !c.Mine(idx) {
			continue
		}
		r := c.Rand("inproc", idx)
		st := &vexec.StepSpec{Name: "main", OutBytes: sizes[r.Intn(len(sizes))], ErrBytes: sizes[r.Intn(len(sizes))],
			StdoutFile: r.Intn(2) == 0, StderrFile: r.Intn(2) == 0, FailFirst: r.Intn(3), RetryLimit: 2}
		if r.Intn(4) == 0 {
			st.RetryLimit = 1
		}
		if r.Intn(3) == 0 && st.OutBytes <= 9000 && (st.StderrFile || st.ErrBytes <= 9000) {
			st.OutputVar = "VERIF_C12_INPROC"
		}
		switch r.Intn(4) {
		case 0:
			st.ChunkSizes = []int{1 + r.Intn(7000)}
		case 1:
			st.ChunkSizes = []int{1, 4095, 2, 4097, 7}
		case 2:
			st.ChunkSizes = []int{4096}
		}
		spec := &vexec.CaseSpec{ID: fmt.Sprintf("c12i%d", idx), Level: "sched", Free: true, DecSeed: int64(idx), PauseUs: 200, Steps: []*vexec.StepSpec{st}}
		for k := 0; k < r.Intn(3); k++ {
			spec.Steps = append(spec.Steps, &vexec.StepSpec{Name: fmt.Sprintf("sib%d", k), OutBytes: 10 + k, ErrBytes: 5})
		}
		c.Begin(idx, spec)
		out := vexec.Run(spec, &vexec.RunOpts{Scratch: c.Scratch, KeepDirs: true, Quiet: true})
		c.Eval(1)
		if out.Inconclusive != "" || out.SetupErr != "" {
			c.Inconclusive("c12 in-process case: " + out.Inconclusive + out.SetupErr)
			os.RemoveAll(out.Dir)
			c.End(idx)
			continue
		}
		fin := out.Final["main"]
		where := "inproc"
		if st.StdoutFile {
			where += "+stdout"
		}
		if st.StderrFile {
			where += "+stderr"
		}
		if st.OutputVar != "" {
			where += "+output"
		}
		if out.Executions()["main"] > 1 {
			where += "|after-retry"
		} else {
			where += "|no-retry"
		}
		desc := map[string]any{"spec": spec, "state": fin.Status, "executions": out.Executions()["main"]}
		wantOut := make([]byte, st.OutBytes)
		for i := range wantOut {
			wantOut[i] = vexec.OutByte(i)
		}
		wantErr := make([]byte, st.ErrBytes)
		for i := range wantErr {
			wantErr[i] = vexec.ErrByte(i)
		}
		projAZ := func(b []byte, upper bool) []byte {
			o := make([]byte, 0, len(b))
			for _, ch := range b {
				if (!upper && ch >= 'a' && ch <= 'z') || (upper && ch >= 'A' && ch <= 'Z') {
					o = append(o, ch)
				}
			}
			return o
		}
		check := func(what string, got, want []byte, file string) {
			c.Count("obligations", 1)
			c.Count("bytes_checked", int64(len(want)))
			if !bytes.HasSuffix(got, want) {
				c.Violate(idx, what+"|"+where, fmt.Sprintf("%s: %s holds %d of the stream's bytes, the last attempt (state %s) wrote %d; the file does not end with what was written", what, file, len(got), fin.Status, len(want)), desc)
			}
		}
		c.Count("obligations", 1)
		if logb, err := os.ReadFile(fin.Log); err != nil {
			c.Violate(idx, "log-missing|"+where, fmt.Sprintf("the log file named in the step's state (%q) cannot be read: %v", fin.Log, err), desc)
		} else {
			check("log-stdout-incomplete", projAZ(logb, false), wantOut, "log")
			if st.StderrFile {
				eb, _ := os.ReadFile(filepath.Join(out.Dir, "main.stderr"))
				check("stderr-file-incomplete", projAZ(eb, true), wantErr, "stderr file")
			} else {
				check("log-stderr-incomplete", projAZ(logb, true), wantErr, "log")
			}
			if st.StdoutFile {
				ob, _ := os.ReadFile(filepath.Join(out.Dir, "main.stdout"))
				check("stdout-file-incomplete", projAZ(ob, false), wantOut, "stdout file")
			}
		}
		c.Sig("inproc", st)
		if idx%211 == 0 {
			c.Sample(map[string]any{"in_process_step": st})
		}
		os.RemoveAll(out.Dir)
		c.End(idx)
	}
}

func c12Body(c *core.Ctx) {
	if c.Mode == "fault" {
		c12FaultBody(c)
		return
	}
	if c.Mode == "inproc" {
		c12InProc(c)
		return
	}
	for idx, cs := range c12Cases(c) {
		if !c.Mine(idx) {
			continue
		}
		c.Begin(idx, cs)
		c12Run(c, idx, cs)
		c.End(idx)
	}
}

func init() {
	core.Register(&core.Prop{ID: "C12", Level: "exploration", Body: c12Body, CrashKey: crashKeyGeneric, MinDistinct: 100,
		Passes: func(tier string) []core.Pass {
			return []core.Pass{{Name: "main", Mode: "emit", Shards: 16, Timeout: 60 * time.Minute},
				{Name: "inproc", Mode: "inproc", Shards: 8, Timeout: 60 * time.Minute},
				{Name: "race", Mode: "inproc", Race: true, Shards: 8, Timeout: 60 * time.Minute},
				{Name: "fault", Mode: "fault", Shards: 12, Timeout: 60 * time.Minute}}
		},
		Exhaustive:  func(tier string) bool { return true },
		Rule:        "Full matrix (enumerated completely, exhaustive=true for this part): {stdout file, stderr file, output variable, script} (16 combinations) x retries before success 0..2 (retry limit 2; some with limit 1 so that the step ends failed) x stream {stdout only, stderr only, both interleaved} x sizes {0, 1, 4095, 4096, 4097, 65536} (output-variable cases capped at 100000 B) with write chunkings {whole, 1000, 4096, 7 bytes}; plus 300 (4000) random cases with sizes up to 1 MiB, chunks down to 1 byte and 0-2 sibling steps. Each case is one real scheduler.Schedule run with the real command executor; the step is an emitter child process whose stdout bytes come from a-z/newline and stderr bytes from A-Z/blank, each byte a function of its offset and of the attempt number. Oracle after Schedule returns, for the LAST attempt: the log file named in Node.State().Log exists; its projection onto the stdout alphabet ends with exactly the bytes the last attempt wrote to stdout; its projection onto the stderr alphabet ends with the bytes written to stderr (or, when stderr: is configured, the stderr file does); the stdout: file ends with the stdout bytes. In-process passes (plain and under the race detector): 600 (20000) cases with the scripted executor writing 0 B - 200 kB in chunks of 1-7000 bytes straight into the node's writers, same oracle. Fault pass: a worker process runs one emitter step (stdout 1-3000 B, stderr 0-900 B, with/without stderr file and output variable) under the ptrace supervisor, which makes every watched system call under the log directory fail in turn (ENOSPC; thorough also EIO): whatever happens to the log, the stdout: and stderr: files hold every byte of their streams (runs whose log could not even be opened are not judged: the step is not run). Non-trivial/distinct = distinct cases.",
		Assumptions: []string{"files are opened for append, so 'ends with' is demanded, not equality", "captured outputs stay below the kernel's 128 KiB per-string exec limit"}})
}
