package props

import (
	"fmt"
	"strings"
	"sync"
	"time"

	"github.com/ErdemOzgen/blackdagger/verifh/core"
	"github.com/ErdemOzgen/blackdagger/verifh/vexec"
)

// CheckC05 judges one execution in which a stop (or the timeout) landed.
// Keys name the scenario (what kind of step, which instant, which stop kind),
// so that a known finding covers exactly its scenario.
func CheckC05(spec *vexec.CaseSpec, out *vexec.Outcome, controlled bool) (rs []Report, obligations int) {
	T := out.StopSeq
	if T < 0 || spec.Stop == nil {
		return nil, 0
	}
	by := specByName(spec)
	where := spec.Stop.At
	for _, e := range out.Events {
		if e.Kind == "CTL" && strings.HasPrefix(e.Info, "stop.inject:") {
			if i := strings.Index(e.Info, "@"); i >= 0 {
				where = e.Info[i+1:]
			}
			break
		}
	}
	scen := fmt.Sprintf("at=%s:kind=%s", where, spec.Stop.Kind)
	if spec.Stop.Kind == "timeout" {
		// the deadline has provably passed at the first event that shows a
		// finished context (the harness' own clock is not the scheduler's)
		T = -1
		for _, e := range out.Events {
			if e.Kind == "RUN_REFUSED" || (e.Kind == "RUN_EXIT" && strings.HasPrefix(e.Info, "ctx")) {
				T = e.Seq
				break
			}
		}
		if T < 0 {
			return nil, 0
		}
	}
	add := func(key, f string, a ...any) { rs = append(rs, Report{"C05", key, fmt.Sprintf(f, a...)}) }
	timeout := spec.Stop.Kind == "timeout"
	wantSig := func(s *vexec.StepSpec) string {
		if spec.Stop.Kind == "http" && s.SignalOnStop != "" {
			return s.SignalOnStop
		}
		return "SIGTERM"
	}
	type life struct {
		launches, enters, exits, kills, beforeExec []int
		killSigs                                   []string
		ctxExit                                    int
	}
	L := map[string]*life{}
	get := func(s string) *life {
		if L[s] == nil {
			L[s] = &life{}
		}
		return L[s]
	}
	hungSeq := -1
	stopHost := ""
	for _, e := range out.Events {
		if e.Kind == "CTL" && strings.HasPrefix(e.Info, "stop.inject:") {
			stopHost = e.Step
		}
		if e.Kind == "CTL" && e.Info == "hung" {
			hungSeq = e.Seq
		}
		if e.Step == "" || isHandlerStep(e.Step) {
			continue
		}
		l := get(e.Step)
		switch {
		case e.Kind == "HOOK" && e.Info == "launch":
			l.launches = append(l.launches, e.Seq)
		case e.Kind == "HOOK" && e.Info == "worker.beforeExec":
			l.beforeExec = append(l.beforeExec, e.Seq)
		case e.Kind == "RUN_ENTER":
			l.enters = append(l.enters, e.Seq)
		case e.Kind == "RUN_EXIT":
			l.exits = append(l.exits, e.Seq)
			if strings.HasPrefix(e.Info, "ctx") && l.ctxExit == 0 {
				l.ctxExit = e.Seq // its command was ended by the DAG's own deadline
			}
		case e.Kind == "KILL":
			l.kills = append(l.kills, e.Seq)
			l.killSigs = append(l.killSigs, e.Info)
		}
	}
	after := func(xs []int) (int, bool) {
		for _, x := range xs {
			if x > T {
				return x, true
			}
		}
		return 0, false
	}
	openAt := func(l *life, t int) bool {
		// a run is open at t if the last RUN_ENTER before t has no RUN_EXIT before t
		le := -1
		for _, x := range l.enters {
			if x < t {
				le = x
			}
		}
		if le < 0 {
			return false
		}
		for _, x := range l.exits {
			if x > le && x < t {
				return false
			}
		}
		return true
	}
	for name, s := range by {
		l := get(name)
		// (a) nothing that had not started is started
		if la, ok := after(l.launches); ok && controlled {
			if en, ok2 := after(l.enters); ok2 && en > la {
				obligations++
				add("started-after-stop:"+scen, "step %s was launched (event %d) and its command started (event %d) after the stop had been accepted (event %d)", name, la, en, T)
			}
		}
		// the stop was injected from this step's own launch hook: its worker has not
		// begun, so every cancel check of that worker comes after the stop
		if stopHost == name && spec.Stop != nil && spec.Stop.At == "launch" && !timeout && controlled {
			obligations++
			if en, ok := after(l.enters); ok {
				add("started-after-stop:"+scen, "step %s was being launched when the stop was accepted (event %d) and its command was started afterwards (event %d)", name, T, en)
			}
		}
		if timeout {
			// Not judged here: the harness knows the DAG's deadline only approximately (the
			// scheduler arms its own timer after the harness's start hook has returned; under load
			// the two differ by more than any fixed margin), and the scripted executor itself
			// refuses to start on an expired context exactly as exec.CommandContext does. That no
			// process is started after the timeout is decided by the real-process pass.
			// What the event log does prove: a step whose command was ended BY the deadline (its
			// Run() returned with the context's error) and that is launched again afterwards.
			if l.ctxExit > 0 {
				obligations++
				for _, la := range l.launches {
					if la > l.ctxExit {
						add("relaunched-after-timeout", "step %s's command was ended by the DAG timeout (event %d) and the step was launched again afterwards (event %d)", name, l.ctxExit, la)
						break
					}
				}
			}
			continue
		}
		// (e) repeating steps
		if s.Repeat {
			obligations++
			// Sound only when the cancel check of the new iteration is known
			// to come after T: the hook event that follows the check is not
			// atomic with it, so a worker that passed the check just before
			// the stop may log it afterwards (same window as lost-signal).
			// Known positions: (1) the previous iteration ended after T;
			// (2) the stop was injected from this step's own repeat.wait hook
			// (its worker was about to sleep the repeat interval).
			for _, x := range l.exits {
				if x <= T {
					continue
				}
				for _, en := range l.enters {
					if en > x {
						add("repeated-after-stop:"+scen, "repeating step %s began a new iteration (Run() at event %d) after its previous iteration had ended (event %d) after the stop was accepted (event %d)", name, en, x, T)
						break
					}
				}
				break
			}
			if stopHost == name && spec.Stop != nil && spec.Stop.At == "repeat.wait" {
				if en, ok := after(l.enters); ok {
					add("repeated-after-stop:"+scen, "repeating step %s began a new iteration (Run() at event %d) after the stop was accepted (event %d) while it was waiting for its repeat interval", name, en, T)
				}
			}
			if openAt(l, T) {
				if k, ok := after(l.kills); ok {
					// its in-flight iteration is completed by the controller at once
					if x, ok2 := after(l.exits); !ok2 || k < x {
						add("repeat-signalled:"+scen, "repeating step %s was sent a signal (event %d) although its current iteration finishes by itself well within maxCleanUpTime", name, k)
					}
				}
			}
			continue
		}
		// (b) running processes get the stop signal
		if T0 := out.StopInject; T0 >= 0 && openAt(l, T0) && controlled && spec.Stop.Kind != "cancel" {
			obligations++
			got := ""
			for i, k := range l.kills {
				if k > T0 && got == "" {
					got = strings.TrimSuffix(l.killSigs[i], "|lost")
				}
			}
			if got == "" {
				add("no-signal:"+scen, "step %s was executing when the stop was issued (event %d) but was never sent a signal", name, T0)
			} else if got != wantSig(s) {
				add("wrong-signal:"+scen, "step %s was sent %s on stop, expected %s (signalOnStop=%q, stop kind %s)", name, got, wantSig(s), s.SignalOnStop, spec.Stop.Kind)
			}
		}
	}
	// (c) the run ends
	obligations++
	lostAtSchedLevel := 0
	if out.Hung {
		for name, s := range by {
			l := get(name)
			if !openAt(l, hungSeq) {
				continue
			}
			gotKill := false
			nk := 0
			for i, k := range l.kills {
				if k > lastBefore(l.enters, hungSeq) && !strings.HasSuffix(l.killSigs[i], "|lost") {
					nk++
					if l.killSigs[i] == "SIGKILL" {
						gotKill = true
					}
				}
			}
			// Scheduler level (Scheduler.Signal / Cancel called directly): there is nobody who
			// sends the signal again or escalates — that is the agent's part of the statement, and
			// the agent-level cases judge it. A signal that reached the step between the creation
			// of its command and the start of its process is lost for a real process too
			// (kill(2) has nothing to hit yet): counted, not a verdict at this level.
			lostEarly := false
			for i := range l.kills {
				if strings.HasSuffix(l.killSigs[i], "|lost") {
					lostEarly = true
				}
			}
			if spec.Level != "agent" && nk == 0 && lostEarly {
				lostAtSchedLevel++
				continue
			}
			switch {
			case s.IgnoreTerm && !gotKill:
				add("no-sigkill:"+scen, "step %s ignores the stop signal and was never sent SIGKILL: the run did not end within the bound after the stop (event %d); signals received: %d", name, T, nk)
			case nk == 0:
				add("lost-signal:"+scen, "step %s's command started around the stop (event %d) and was never sent any signal: the run did not end within the bound", name, T)
			default:
				add("hang:"+scen, "step %s still executing when the bound after the stop (event %d) expired", name, T)
			}
		}
		if len(rs) == 0 && lostAtSchedLevel == 0 {
			add("hang:"+scen, "the run did not return within the bound after the stop (event %d) although no step was executing", T)
		}
		return rs, obligations
	}
	// (d) outcome and handlers
	status := out.Status
	if spec.Level == "agent" && out.LastStatus != nil {
		status = out.LastStatus.Status.String()
	}
	enters := map[string]int{}
	for _, e := range out.Events {
		if e.Kind == "RUN_ENTER" {
			enters[e.Step]++
		}
	}
	obligations++
	if timeout {
		allOK := true
		for _, f := range out.Final {
			if f.Status != "finished" && f.Status != "skipped" {
				allOK = false
			}
		}
		if status == "finished" && !allOK {
			add("timeout-reported-finished", "the DAG timeout elapsed with steps unfinished but the run is reported finished")
		}
		if spec.Handlers["onExit"] != nil && enters["onExit"] != 1 {
			add("timeout-no-onexit", "after the timeout the exit handler ran %d time(s)", enters["onExit"])
		}
		return rs, obligations
	}
	if stopInterrupted(spec, out) {
		allOK := true
		for _, f := range out.Final {
			if f.Status != "finished" && f.Status != "skipped" {
				allOK = false
			}
		}
		if !allOK {
			ownFail := false
			for name, f := range out.Final {
				if f.Status == "failed" && by[name] != nil {
					ownFail = true
				}
			}
			if status != "canceled" && !(ownFail && status == "failed") {
				add("not-canceled:"+scen, "the run was stopped before completing (steps %s) but is reported %q", finalVec(out), status)
			}
			if status == "canceled" {
				if spec.Handlers["onCancel"] != nil && enters["onCancel"] != 1 {
					add("no-oncancel:"+scen, "run canceled but the cancel handler ran %d time(s)", enters["onCancel"])
				}
			}
		}
		if spec.Handlers["onExit"] != nil && enters["onExit"] != 1 {
			add("no-onexit:"+scen, "run stopped but the exit handler ran %d time(s)", enters["onExit"])
		}
	}
	return rs, obligations
}

func lastBefore(xs []int, t int) int {
	r := -1
	for _, x := range xs {
		if x < t {
			r = x
		}
	}
	return r
}

// c05Grid builds the systematic agent-level grid.
func c05Grid(prefix string) []*vexec.CaseSpec {
	var out []*vexec.CaseSpec
	type beh struct {
		name string
		mk   func(s *vexec.StepSpec)
	}
	behs := []beh{
		{"coop-never", func(s *vexec.StepSpec) { s.Never = true }},
		{"ignore-never", func(s *vexec.StepSpec) { s.Never = true; s.IgnoreTerm = true }},
		{"coop-finishing", func(s *vexec.StepSpec) {}},
		{"retrying", func(s *vexec.StepSpec) { s.FailFirst = -1; s.RetryLimit = 2; s.RetryMs = 40 }},
		{"repeat", func(s *vexec.StepSpec) { s.Repeat = true; s.RepeatMs = 5 }},
	}
	type inst struct {
		at  string
		nth int
	}
	insts := []inst{{"decision", 2}, {"decision", 5}, {"beforeLaunch", 0}, {"beforeLaunch", 1}, {"launch", 0}, {"worker.beforeExec", 0}, {"worker.beforeExec", 1}, {"retry.wait", 0}, {"repeat.wait", 0}, {"handlers", 0}}
	kinds := []struct{ kind, sos string }{{"signal", ""}, {"http", ""}, {"http", "SIGINT"}, {"signal", "SIGINT"}}
	n := 0
	for shape := 0; shape < 4; shape++ {
		for _, b := range behs {
			for _, in := range insts {
				if in.at == "retry.wait" && b.name != "retrying" {
					continue
				}
				if in.at == "repeat.wait" && b.name != "repeat" {
					continue
				}
				for _, k := range kinds {
					x := &vexec.StepSpec{Name: "x", SignalOnStop: k.sos}
					b.mk(x)
					spec := &vexec.CaseSpec{ID: fmt.Sprintf("%s_g%d", prefix, n), Level: "agent", Steps: []*vexec.StepSpec{x},
						Stop: &vexec.StopSpec{Kind: k.kind, At: in.at, Nth: in.nth}, MaxCleanUpMs: 200, PauseUs: 500,
						Handlers: map[string]*vexec.HandlerSpec{"onCancel": {}, "onExit": {}, "onSuccess": {}, "onFailure": {}}, UseDecisions: true}
					switch shape {
					case 1: // x || y
						spec.Steps = append(spec.Steps, &vexec.StepSpec{Name: "y", Never: true})
					case 2: // x -> z, z must never start
						spec.Steps = append(spec.Steps, &vexec.StepSpec{Name: "z", Depends: []string{"x"}})
					case 3: // w -> x, x || r(repeat)
						x.Depends = []string{"w"}
						spec.Steps = append([]*vexec.StepSpec{{Name: "w"}}, spec.Steps...)
						spec.Steps = append(spec.Steps, &vexec.StepSpec{Name: "r", Repeat: true, RepeatMs: 3})
					}
					out = append(out, spec)
					n++
				}
			}
		}
	}
	return out
}

func c05Body(c *core.Ctx) {
	if c.Mode == "real" {
		c05RealBody(c)
		return
	}
	vexec.Init()
	controlled := c.Mode == "controlled"
	var mu sync.Mutex
	handle := func(idx int, spec *vexec.CaseSpec, out *vexec.Outcome) {
		mu.Lock()
		defer mu.Unlock()
		c.Eval(1)
		if out.StopDropped {
			c.Count("obligations", 1)
			at := ""
			if spec.Stop != nil {
				at = spec.Stop.At
			}
			kind := ""
			if spec.Stop != nil {
				kind = spec.Stop.Kind
			}
			c.Violate(idx, "stop-dropped:at="+at+":kind="+kind, "a stop request (POST /stop answered 200, or SIGTERM delivered to the agent) had not been acted upon 20 s later: no step signalled, the run not marked canceled", map[string]any{"case": spec, "trace": TraceSig(out)})
			return
		}
		if out.Inconclusive != "" {
			c.Inconclusive(fmt.Sprintf("case %d: %s", idx, out.Inconclusive))
			return
		}
		if out.SetupErr != "" {
			c.Inconclusive(fmt.Sprintf("case %d: setup: %s", idx, out.SetupErr))
			return
		}
		if out.StopSeq < 0 {
			c.Count("stop_instant_not_reached", 1)
			return
		}
		rs, n := CheckC05(spec, out, controlled && !spec.Free)
		c.Count("obligations", int64(n))
		c.Count("events", int64(len(out.Events)))
		c.Count("stops_landed", 1)
		if out.Hung {
			c.Count("hung_runs", 1)
		}
		nk := 0
		for _, e := range out.Events {
			if e.Kind == "KILL" {
				nk++
				c.SetAdd("signals_delivered", strings.TrimSuffix(e.Info, "|lost"))
				if strings.HasSuffix(e.Info, "|lost") {
					c.Count("kills_that_reached_no_process", 1)
				}
			}
		}
		c.Count("kill_events", int64(nk))
		c.SetAdd("stop_instants", spec.Stop.At+"/"+spec.Stop.Kind+"/"+spec.Level)
		for _, r := range rs {
			c.Violate(idx, r.Key, r.What, spec)
		}
		c.Sig(ShapeSig(spec), TraceSig(out))
		c.Sample(map[string]any{"case": spec, "trace": TraceSig(out), "status": out.Status, "hung": out.Hung})
	}
	runPar := func(jobs []func(), par int) {
		sem := make(chan struct{}, par)
		var wg sync.WaitGroup
		for _, j := range jobs {
			wg.Add(1)
			sem <- struct{}{}
			go func(j func()) {
				defer wg.Done()
				defer func() { <-sem }()
				j()
			}(j)
		}
		wg.Wait()
	}
	bound := 35 * time.Second
	idx := 0
	var jobs []func()
	if controlled {
		// 1. systematic agent-level grid (escalation lives in Agent.signal)
		grid := c05Grid("C05")
		stride := 1
		if c.Quick() {
			stride = 3 // every third grid point, rotated by the seed
		}
		for i, spec := range grid {
			if (i+int(c.Seed))%stride == 0 && c.Mine(idx) {
				spec, i := spec, idx
				jobs = append(jobs, func() {
					c.Begin(i, spec)
					handle(i, spec, vexec.Run(spec, &vexec.RunOpts{Scratch: c.Scratch, HangBound: bound}))
					c.End(i)
				})
			}
			idx++
		}
		// 2. random scheduler-level stop cases (fast): every instant on random DAGs
		ns := c.Pick(6000, 150000)
		for i := 0; i < ns; i++ {
			if c.Mine(idx) {
				i := idx
				jobs = append(jobs, func() {
					spec := c05Random(c, i, "sched")
					c.Begin(i, spec)
					handle(i, spec, vexec.Run(spec, &vexec.RunOpts{Scratch: c.Scratch, HangBound: 5 * time.Second}))
					c.End(i)
				})
			}
			idx++
		}
		// 3. random agent-level cases
		na := c.Pick(250, 5000)
		for i := 0; i < na; i++ {
			if c.Mine(idx) {
				i := idx
				jobs = append(jobs, func() {
					spec := c05Random(c, i, "agent")
					c.Begin(i, spec)
					handle(i, spec, vexec.Run(spec, &vexec.RunOpts{Scratch: c.Scratch, HangBound: bound}))
					c.End(i)
				})
			}
			idx++
		}
		runPar(jobs, 24)
		return
	}
	idx = 1 << 20
	nf := c.Pick(2000, 40000)
	for i := 0; i < nf; i++ {
		if c.Mine(idx) {
			i := idx
			jobs = append(jobs, func() {
				spec := c05Random(c, i, "sched")
				spec.Free = true
				spec.PauseUs = 200
				if spec.Stop.At == "decision" {
					spec.Stop.At = "worker.beforeExec"
					spec.Stop.Nth %= 3
				}
				c.Begin(i, spec)
				handle(i, spec, vexec.Run(spec, &vexec.RunOpts{Scratch: c.Scratch, HangBound: 5 * time.Second}))
				c.End(i)
			})
		}
		idx++
	}
	runPar(jobs, 8)
}

func c05Random(c *core.Ctx, idx int, level string) *vexec.CaseSpec {
	r := c.Rand("r"+level, idx)
	spec := GenDAG(r, fmt.Sprintf("C05_%s%d", level[:1], idx), GenOpts{MaxN: 5, Retries: true, ContinueOn: true, Failures: true, MaxActive: true, Handlers: true, RetryMsProb: 40})
	spec.Level = level
	for _, s := range spec.Steps {
		switch x := r.Intn(100); {
		case x < 25:
			s.Never = true
		case x < 35:
			s.Repeat = true
			s.RepeatMs = r.Intn(4)
			s.RetryLimit = 0
			s.FailFirst = 0
		}
		if r.Intn(100) < 25 {
			s.SignalOnStop = []string{"SIGINT", "SIGHUP", "SIGUSR1"}[r.Intn(3)]
		}
	}
	kinds := []string{"signal", "cancel", "http"}
	if level == "agent" {
		kinds = []string{"signal", "http"}
		spec.MaxCleanUpMs = 200
	}
	ats := []string{"decision", "decision", "decision", "beforeLaunch", "launch", "worker.beforeExec", "retry.wait", "repeat.wait", "handlers"}
	spec.Stop = &vexec.StopSpec{Kind: kinds[r.Intn(len(kinds))], At: ats[r.Intn(len(ats))], Nth: r.Intn(4)}
	if spec.Stop.At == "decision" {
		spec.Stop.Nth = r.Intn(12)
	}
	if r.Intn(100) < 12 {
		spec.Stop = &vexec.StopSpec{Kind: "timeout", At: "decision", Nth: r.Intn(8)}
		spec.TimeoutMs = 40
	}
	spec.PauseUs = 200
	return spec
}

func init() {
	core.Register(&core.Prop{ID: "C05", Level: "exploration", Body: c05Body, CrashKey: crashKeyGeneric, MinDistinct: 50,
		Passes: func(tier string) []core.Pass {
			return []core.Pass{
				{Name: "main", Mode: "controlled", Shards: 16, Timeout: 60 * time.Minute},
				{Name: "race", Mode: "free", Race: true, Shards: 16, Timeout: 60 * time.Minute},
				{Name: "real", Mode: "real", Shards: 12, Timeout: 60 * time.Minute},
			}
		},
		Rule: "Cases: (1) an agent-level grid {4 DAG shapes} x {step that returns on the signal but never by itself, step that ignores the signal, step that finishes by itself, retrying step, repeating step} x {stop landed synchronously while running (2 depths), at dagsched.launch, at worker.beforeExec (between the cancel check and executor creation, 2 occurrences), during the retry wait, between repeat iterations, at the handlers point} x {Agent.Signal(SIGTERM), POST /stop over the real unix socket, each with and without signalOnStop}, through the real Agent.Run (quick: every third grid point, rotated by seed); (2) random scheduler-level DAGs with Signal/Cancel/timeout at PRNG-chosen instants; (3) random agent-level cases; (4) free-running scheduler-level cases under -race; (5) REAL-PROCESS pass: the real `blackdagger start` with real child processes as steps — {sleep, shell wrapper, handler that exits on TERM, process that ignores TERM, shell whose background child keeps the step's stdout pipe open, signalOnStop: SIGINT, two running steps + a pending one, a repeating step} x {SIGTERM to the agent, the real `blackdagger stop`, timeoutSec: 2}; oracle from marker files written by the children and /proc: the start process ends within 45 s (maxCleanUpTimeSec 1), no process of the run is left alive, the pending step never began, each handling step received SIGTERM (SIGINT with signalOnStop through the stop command), repeating steps neither signalled nor re-iterated, recorded status canceled with onCancel + onExit (timeout: not finished, onExit). Oracle of (1)-(4) over the event log relative to the instant T the stop was accepted (after fan-out): no step launched and started after T; every non-repeating step executing at T is sent signalOnStop (HTTP stop) or SIGTERM; a run that has not returned 35 s after T (maxCleanUpTime 0.2 s, agent poll 3 s: >=10x margin; scripted steps cannot end by themselves) is a hang, classified by the step left executing; stopped runs are canceled with onCancel+onExit; timeouts end, are not 'finished', run onExit, start nothing after the deadline; repeating steps are neither re-iterated after T nor signalled; a step whose command was ended by the DAG deadline (its Run() returned with the context error) is never launched again; stops are also landed between the loop cancel check and the launch of the chosen step (hook dagsched.beforeLaunch); scheduler-level cases whose only signal was lost before the process existed are counted, not judged (the escalation is the agent part). Non-trivial = the stop landed (StopSeq >= 0). Distinct = (case, event order).",
		Assumptions: []string{"the label after a timeout is not constrained beyond 'not finished' (the pinned suite asserts 'failed')",
			"wall-clock is used only for the hang bound, with >= 10x margin against steps that cannot end by themselves; watchdog expiry elsewhere is inconclusive",
			"real process groups (sh + grandchild) are exercised by the procrun part, not by the scripted executor"}})
}
