package props

import (
	"fmt"
	"math/rand"
	"strings"
	"time"

	"github.com/ErdemOzgen/blackdagger/verifh/core"
	"github.com/ErdemOzgen/blackdagger/verifh/vexec"
)

// accessor sets for the race gate (DESIGN §1.1)
var nodeAccessors = []string{
	"scheduler.(*Node).setStatus", "scheduler.(*Node).State", "scheduler.(*Node).Data", "scheduler.(*Node).signal",
	"scheduler.(*Node).cancel", "scheduler.(*Node).setErr", "scheduler.(*Node).SetError", "scheduler.(*Node).incRetryCount",
	"scheduler.(*Node).getRetryCount", "scheduler.(*Node).incDoneCount", "scheduler.(*Node).setRetriedAt", "scheduler.(*Node).finish",
	"scheduler.(*Node).setup", "scheduler.(*Node).teardown", "scheduler.(*ExecutionGraph).NodeData",
}
var schedAccessors = []string{
	"scheduler.(*Scheduler).isCanceled", "scheduler.(*Scheduler).setCanceled", "scheduler.(*Scheduler).setLastError",
	"scheduler.(*Scheduler).isError", "scheduler.(*Scheduler).isSucceed",
	"scheduler.(*ExecutionGraph).Start", "scheduler.(*ExecutionGraph).Finish", "scheduler.(*ExecutionGraph).IsStarted",
	"scheduler.(*ExecutionGraph).IsRunning", "scheduler.(*ExecutionGraph).StartAt", "scheduler.(*ExecutionGraph).FinishAt",
}

func init() {
	for _, id := range []string{"C01", "C02", "C03", "C15", "C05"} {
		core.RaceGate[id] = nodeAccessors
	}
	core.RaceGate["C04"] = append(append([]string{}, nodeAccessors...), schedAccessors...)
}

type dagFamily struct {
	prop       string
	gen        GenOpts
	nontrivial func(spec *vexec.CaseSpec, out *vexec.Outcome, oblC01 int64) bool
}

func famPasses(quickShards, thoroughShards int) func(string) []core.Pass {
	return func(tier string) []core.Pass {
		n := quickShards
		if tier == "thorough" {
			n = thoroughShards
		}
		return []core.Pass{
			{Name: "main", Mode: "controlled", Shards: n, Timeout: 40 * time.Minute},
			{Name: "race", Mode: "free", Race: true, Shards: n, Timeout: 40 * time.Minute},
		}
	}
}

// judge applies all DAG-family monitors and returns the reports for prop.
func judge(prop string, spec *vexec.CaseSpec, out *vexec.Outcome) (rs []Report, obl int) {
	all := SplitOnline(out)
	all = append(all, CheckC01Offline(spec, out)...)
	if spec.Stop == nil && spec.TimeoutMs == 0 && !out.Stuck && out.SetupErr == "" && !spec.Dry {
		fs, n := CheckFinalStates(spec, out)
		all = append(all, fs...)
		obl += n
	}
	if out.Stuck {
		all = append(all, Report{"C15", "stuck", "the scheduling loop reached a fix-point with unfinished steps and nothing running: the run can never complete"})
		all = append(all, Report{"C02", "stuck", "the scheduling loop reached a fix-point with unfinished steps and nothing running"})
	}
	if spec.Hold && spec.MaxActiveRuns == 0 && spec.Stop == nil && spec.TimeoutMs == 0 && !spec.Dry {
		roots := 0
		for _, s := range spec.Steps {
			if len(s.Depends) == 0 && !(s.HasPrecond && s.PrecondUnmet) {
				roots++
			}
		}
		obl++
		if out.MaxOpen < roots {
			all = append(all, Report{"C15", "limit-without-k", fmt.Sprintf("maxActiveRuns=0 and every gate held, but only %d of %d initially ready steps were ever executing at once", out.MaxOpen, roots)})
		}
	}
	for _, r := range all {
		if r.Prop == prop {
			rs = append(rs, r)
		}
	}
	return rs, obl
}

func (f *dagFamily) body(c *core.Ctx) {
	vexec.Init()
	runOne := func(idx int, spec *vexec.CaseSpec, enumLimit int) {
		var obl int64
		opts := &vexec.RunOpts{Scratch: c.Scratch}
		handle := func(cs *vexec.CaseSpec, out *vexec.Outcome) {
			c.Eval(1)
			if out.Inconclusive != "" {
				c.Inconclusive(fmt.Sprintf("case %d: %s", idx, out.Inconclusive))
				return
			}
			rs, n := judge(f.prop, cs, out)
			c.Count("obligations", int64(n)+obl)
			c.Count("events", int64(len(out.Events)))
			c.Count("decisions", int64(len(out.Taken)))
			for h, k := range out.HookHits {
				c.Count("hook:"+h, int64(k))
			}
			c.Max("max_open_runs", int64(out.MaxOpen))
			for _, r := range rs {
				c.Violate(idx, r.Key, r.What, cs)
			}
			if f.nontrivial(cs, out, obl) {
				c.Sig(ShapeSig(cs), TraceSig(out))
				c.SetAdd("traces", sigShort(TraceSig(out)))
				c.Count("nontrivial_runs", 1)
				c.Sample(map[string]any{"case": cs, "trace": TraceSig(out), "final": out.Final})
			}
			obl = 0
		}
		opts.OnRunEnter = OnlineMonitors(spec, &obl)
		c.Begin(idx, spec)
		if enumLimit > 0 {
			paths, full := Enumerate(spec, opts, enumLimit, handle)
			c.Count("enumerated_paths", int64(paths))
			if full {
				c.Count("cases_fully_enumerated", 1)
			} else {
				c.Count("cases_enumeration_truncated", 1)
			}
		} else {
			handle(spec, vexec.Run(spec, opts))
		}
		c.End(idx)
	}

	idx := 0
	if c.Mode == "controlled" {
		// Part A: every shape on 1..3 steps (4 in thorough) x sampled assignments x enumerated completion orders
		maxN := 3
		assign := c.Pick(16, 60)
		limit := c.Pick(120, 600)
		if !c.Quick() {
			maxN = 4
		}
		for n := 1; n <= maxN; n++ {
			shapes := AllShapes(n)
			for si, sh := range shapes {
				na := assign
				if n == 4 {
					na = 6
					limit = 60
				}
				for a := 0; a < na; a++ {
					if c.Mine(idx) {
						r := c.Rand("small", idx)
						spec := ShapeCase(fmt.Sprintf("%s_a%d", c.Prop, idx), n, sh)
						f.assign(r, spec)
						_ = si
						runOne(idx, spec, limit)
					}
					idx++
				}
			}
		}
		// Part B: random controlled cases
		nb := c.Pick(12000, 250000)
		for i := 0; i < nb; i++ {
			if c.Mine(idx) {
				r := c.Rand("rand", idx)
				g := f.gen
				spec := GenDAG(r, fmt.Sprintf("%s_b%d", c.Prop, idx), g)
				runOne(idx, spec, 0)
			}
			idx++
		}
		// Part C: "hold" cases — every gate is held as long as the controller may
		nh := c.Pick(1500, 20000)
		for i := 0; i < nh; i++ {
			if c.Mine(idx) {
				r := c.Rand("hold", idx)
				spec := GenDAG(r, fmt.Sprintf("%s_h%d", c.Prop, idx), f.gen)
				spec.UseDecisions = true // listDecider with an empty list: always option 0 = hold
				spec.Decisions = nil
				spec.Hold = true
				runOne(idx, spec, 0)
			}
			idx++
		}
		return
	}
	// free-running stress (race build)
	idx = 1 << 20
	nf := c.Pick(3000, 60000)
	for i := 0; i < nf; i++ {
		if c.Mine(idx) {
			r := c.Rand("free", idx)
			g := f.gen
			g.RetryMsProb = 30
			spec := GenDAG(r, fmt.Sprintf("%s_f%d", c.Prop, idx), g)
			spec.Free = true
			spec.PauseUs = 200
			runOne(idx, spec, 0)
		}
		idx++
	}
}

func sigShort(s string) string {
	if len(s) > 160 {
		return s[:160]
	}
	return s
}

// assign fills flags and scripts of a shape case.
func (f *dagFamily) assign(r *rand.Rand, spec *vexec.CaseSpec) {
	for _, s := range spec.Steps {
		if f.gen.ContinueOn {
			s.ContFail = r.Intn(100) < 40
			s.ContSkip = r.Intn(100) < 40
		}
		if f.gen.Failures {
			switch x := r.Intn(100); {
			case x < 45:
			case x < 70:
				s.FailFirst = 1 + r.Intn(2)
			default:
				s.FailFirst = -1
			}
		}
		if f.gen.Retries && r.Intn(100) < 45 {
			s.RetryLimit = 1 + r.Intn(2)
		}
		if f.gen.Preconds && r.Intn(100) < 25 {
			s.HasPrecond = true
			s.PrecondUnmet = r.Intn(2) == 0
			s.PrecondN = 1 + r.Intn(3)
			s.PrecondBadAt = r.Intn(s.PrecondN)
		}
	}
	if f.gen.MaxActive {
		spec.MaxActiveRuns = r.Intn(len(spec.Steps) + 2)
	}
	spec.DecSeed = r.Int63()
}

func crashKeyGeneric(caseDesc, output string) (string, string) {
	// cases may run in parallel inside a shard, so the crash is keyed by the
	// innermost blackdagger frame of the panic, not by the open case
	fn := "unknown"
	lines := splitLines(output)
	for i, l := range lines {
		if strings.HasPrefix(l, "panic:") || strings.HasPrefix(l, "fatal error:") {
			for _, x := range lines[i:] {
				if j := strings.Index(x, "ErdemOzgen/blackdagger/internal/"); j >= 0 && !strings.Contains(x, "/verifh/") && !strings.HasPrefix(x, "\t") {
					fn = x[j+len("ErdemOzgen/blackdagger/"):]
					if k := strings.LastIndex(fn, "("); k > 0 {
						fn = fn[:k]
					}
					break
				}
			}
			break
		}
	}
	return "crash:" + fn, "the process died while executing cases: " + lastPanicLine(output)
}

func init() {
	full := GenOpts{MaxN: 6, Retries: true, Preconds: true, ContinueOn: true, Failures: true, MaxActive: true, Delay: true, Outputs: true, SharedPrec: true, TeardownFail: true, SubWorkflow: true, RetryMsProb: 5}
	c01 := &dagFamily{prop: "C01", gen: full, nontrivial: func(spec *vexec.CaseSpec, out *vexec.Outcome, obl int64) bool {
		ex := out.Executions()
		for _, s := range spec.Steps {
			if len(s.Depends) > 0 && ex[s.Name] > 0 {
				return true
			}
		}
		return false
	}}
	c01Passes := func(tier string) []core.Pass {
		return append(famPasses(16, 16)(tier), core.Pass{Name: "real", Mode: "real", Shards: 12, Timeout: 40 * time.Minute})
	}
	c01Body := func(c *core.Ctx) {
		if c.Mode == "real" {
			c01RealBody(c)
			return
		}
		c01.body(c)
	}
	core.Register(&core.Prop{ID: "C01", Level: "exploration", Body: c01Body, Passes: c01Passes, CrashKey: crashKeyGeneric, MinDistinct: 50,
		Rule: "Cases: every acyclic shape on 1..3 steps (1..4 in thorough) x PRNG-drawn assignments of {continueOn, retryPolicy, precondition met/unmet (1-3 conditions on environment variables, one step in four expecting the empty value), fail-first-k / fail-always scripts, maxActiveRuns} x depth-first enumeration of the controller's decisions (which open Run() completes between which two per-node checks of the scheduling loop; capped, truncation counted); random DAGs up to 6 steps under PRNG decisions; 'hold' cases where every gate stays closed as long as the loop makes progress; free-running cases under the race detector. Executions are of the real scheduler.Schedule with a scripted executor; the dependency gate is evaluated online inside Run() entry through Node.State(). Real pass: 24 (300) densely connected definitions of 14-30 steps with forward references (dependencies on steps defined later), loaded from YAML and run by the real binary in a fresh process (node ids 1..n), every step a child process writing BEGIN / END marker lines: a step begins after all its dependencies have ended, every step runs once, the run exits 0. Non-trivial = at least one step WITH dependencies was executed (>=1 dependency-gate obligation). Distinct = distinct (shape+flags+scripts, order of launch/enter/exit events).",
		Assumptions: []string{"interleavings finer than the hook points (between two statements of the loop) are only sampled by the free-running -race pass, not enumerated",
			"a data race is a violation only when both accesses are inside the lock-taking accessors of node state (DESIGN 1.1)"}})

	c02 := &dagFamily{prop: "C02", gen: full, nontrivial: func(spec *vexec.CaseSpec, out *vexec.Outcome, obl int64) bool {
		for _, f := range out.Final {
			if f.Status != "finished" {
				return true
			}
		}
		return false
	}}
	core.Register(&core.Prop{ID: "C02", Level: "exploration", Body: c02.body, Passes: famPasses(16, 16), CrashKey: crashKeyGeneric, MinDistinct: 50,
		Rule:        "Same generator as C01 (all shapes <=3 (<=4 thorough) x sampled assignments x enumerated completion orders; random DAGs <=6; hold; free-running under -race). Oracle: after Schedule returns without stop/timeout, every step's final Node.State().Status and execution count is checked for local consistency with its dependencies' final states (runnable => executed and finished/failed as its script dictates, or skipped with 0 executions if its own precondition is unmet; downstream of a failed/canceled dependency without continueOn.failure or of a skipped one without continueOn.skipped => 0 executions and canceled/skipped; canceled-vs-skipped is not constrained when both blocker kinds exist); no step left not-started/running. Non-trivial = some step did not end 'finished'. Distinct as in C01.",
		Assumptions: []string{"set-up failures, repeat policies, stops and timeouts are outside this property's hypothesis and are not generated here"}})

	c03gen := full
	c03 := &dagFamily{prop: "C03", gen: c03gen, nontrivial: func(spec *vexec.CaseSpec, out *vexec.Outcome, obl int64) bool {
		ex := out.Executions()
		for _, s := range spec.Steps {
			if ex[s.Name] > 1 || (ex[s.Name] == 0) {
				return true
			}
		}
		return false
	}}
	c03Passes := func(tier string) []core.Pass {
		return append(famPasses(16, 16)(tier), core.Pass{Name: "real", Mode: "real", Shards: 12, Timeout: 40 * time.Minute})
	}
	core.Register(&core.Prop{ID: "C03", Level: "exploration", Body: c03.bodyC03, Passes: c03Passes, CrashKey: crashKeyGeneric, MinDistinct: 50,
		Rule:        "Same generator as C01 with retry limits 0..2 and scripts failing the first k attempts with k below, at and above the limit, plus fail-always; every maxActiveRuns. Oracle: executions counted by the scripted executor == min(k,limit)+1 for runnable steps and 0 otherwise; Node.State().RetryCount == executions-1; an attempt number above limit+1 is flagged the moment Run() is entered; two Run() calls of one step open at once are flagged. Dry-run part: generated DAGs go through the real agent with Dry=true over a real jsondb directory; any executor event or any file in the data directory afterwards is a violation. Real pass: 96 (1200) definitions LOADED FROM YAML and run by the real scheduler with the real command executor, one step of kind {command string, command list, script, script with interpreter arguments, shell wrapper, quoted arguments with a command substitution} that is a child process counting its own executions and failing its first k attempts (k in 0,1,2,3,9) under retry limit 0..3: executions == min(k,limit)+1, final state, recorded retry count, state of its dependent. Non-trivial = a step was retried or was not runnable. Distinct as in C01.",
		Assumptions: []string{"dry-run cases are executed through Agent.Run in-process; the CLI's `dry` command wiring is covered by the pinned suite only"}})

	c15gen := GenOpts{MaxN: 6, Retries: true, Failures: true, MaxActive: true, SubWorkflow: true, RetryMsProb: 25}
	c15 := &dagFamily{prop: "C15", gen: c15gen, nontrivial: func(spec *vexec.CaseSpec, out *vexec.Outcome, obl int64) bool {
		return spec.MaxActiveRuns > 0 && out.MaxOpen >= spec.MaxActiveRuns && len(spec.Steps) > spec.MaxActiveRuns
	}}
	c15Passes := famPasses(16, 16)
	core.Register(&core.Prop{ID: "C15", Level: "exploration", Body: func(c *core.Ctx) {
		if c.Mode == "base" {
			c15BaseBody(c)
			return
		}
		c15.body(c)
	}, Passes: func(tier string) []core.Pass {
		return append(c15Passes(tier), core.Pass{Name: "base", Mode: "base", Shards: 16, Timeout: 40 * time.Minute})
	}, CrashKey: crashKeyGeneric, MinDistinct: 50,
		Rule:        "Wide DAGs (few edges favoured) with maxActiveRuns k in 0..steps+1, retries with and without interval. Oracle, online at every Run() entry: open Run() calls + steps sleeping out a retry interval <= k (k>0). 'Never prevents completion': the logical fix-point detector (no worker alive, no event, state vector unchanged for 3 loop iterations, loop not finished) flags a stuck run. k=0: in hold cases every initially ready step must be open at once. Non-trivial = the high-water mark of open runs reached k while more steps than k existed. Distinct as in C01. Base pass (real binary): 16 (32) runs of five independent steps with maxActiveRuns set in the base configuration file (none/1/2/3) and/or in the DAG (none/1/2/4); the steps are children that append BEGIN/END lines to one marker file; the number of steps between BEGIN and END never exceeds the limit in force (the DAG's own, else the base's) and every step completes.",
		Assumptions: []string{"the retry-sleeper clause is observable only in the free-running pass (in controlled mode a worker's retry sleep is atomic w.r.t. the loop)"}})
}

func lastPanicLine(out string) string {
	lines := splitLines(out)
	for i, l := range lines {
		if len(l) > 6 && (l[:6] == "panic:" || (len(l) > 12 && l[:12] == "fatal error:")) {
			end := i + 12
			if end > len(lines) {
				end = len(lines)
			}
			s := ""
			for _, x := range lines[i:end] {
				s += x + " | "
			}
			return s
		}
	}
	if len(lines) > 3 {
		lines = lines[len(lines)-3:]
	}
	s := ""
	for _, x := range lines {
		s += x + " | "
	}
	return s
}

func splitLines(s string) []string {
	var out []string
	cur := ""
	for _, r := range s {
		if r == '\n' {
			out = append(out, cur)
			cur = ""
		} else {
			cur += string(r)
		}
	}
	if cur != "" {
		out = append(out, cur)
	}
	return out
}

// judgeAll is judge plus the monitors of the other engine-A properties (debug).
func judgeAll(prop string, spec *vexec.CaseSpec, out *vexec.Outcome) ([]Report, int) {
	return judge(prop, spec, out)
}
