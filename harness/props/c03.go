package props

import (
	"fmt"
	"os"
	"path/filepath"

	"github.com/ErdemOzgen/blackdagger/verifh/core"
	"github.com/ErdemOzgen/blackdagger/verifh/vexec"
)

// bodyC03 = the shared DAG-family workload + the dry-run part.
func (f *dagFamily) bodyC03(c *core.Ctx) {
	if c.Mode == "real" {
		c03RealBody(c)
		return
	}
	f.body(c)
	if c.Mode != "controlled" {
		return
	}
	idx := 2 << 20
	n := c.Pick(60, 2000)
	for i := 0; i < n; i++ {
		if c.Mine(idx) {
			r := c.Rand("dry", idx)
			g := f.gen
			g.Handlers = true
			g.MaxN = 5
			spec := GenDAG(r, fmt.Sprintf("C03_d%d", idx), g)
			spec.Level = "agent"
			spec.Dry = true
			for _, s := range spec.Steps {
				s.RetryMs = 0
			}
			c.Begin(idx, spec)
			out := vexec.Run(spec, &vexec.RunOpts{Scratch: c.Scratch, KeepDirs: true})
			c.Eval(1)
			c.Count("dry_runs", 1)
			if out.Inconclusive != "" {
				c.Inconclusive(fmt.Sprintf("dry case %d: %s", idx, out.Inconclusive))
			} else if out.SetupErr != "" {
				c.Inconclusive(fmt.Sprintf("dry case %d: setup: %s", idx, out.SetupErr))
			} else {
				nev := 0
				for _, e := range out.Events {
					if e.Kind == "RUN_ENTER" {
						nev++
					}
				}
				nev += int(out.Creates)
				c.Count("obligations", 2)
				if nev > 0 {
					c.Violate(idx, "dry-executed", fmt.Sprintf("dry run produced %d executor events (steps or handlers were executed)", nev), spec)
				}
				files := 0
				_ = filepath.Walk(out.DataDir, func(p string, info os.FileInfo, err error) error {
					if err == nil && !info.IsDir() {
						files++
					}
					return nil
				})
				if files > 0 {
					c.Violate(idx, "dry-history", fmt.Sprintf("dry run left %d file(s) in the history directory", files), spec)
				}
				c.Sig("dry", ShapeSig(spec))
				if i < 2 {
					c.Sample(map[string]any{"dry_case": spec, "status": out.Status, "executor_events": nev, "history_files": files})
				}
			}
			if out.DataDir != "" {
				_ = os.RemoveAll(filepath.Dir(out.DataDir))
			}
			c.End(idx)
		}
		idx++
	}
}
