package props

import (
	"encoding/json"
	"fmt"
	"os"
	"path/filepath"
	"sort"
	"strings"
	"time"

	"github.com/ErdemOzgen/blackdagger/internal/persistence/jsondb"
	"github.com/ErdemOzgen/blackdagger/verifh/core"
	"github.com/ErdemOzgen/blackdagger/verifh/gate"
)

// ---- worker: the recording process that gets killed ------------------------------

type wOp struct {
	Op    string `json:"op"` // record open write close update rename removeold
	Dag   string `json:"dag,omitempty"`
	To    string `json:"to,omitempty"`
	Req   string `json:"req,omitempty"`
	Start int64  `json:"startMs,omitempty"`
	IDs   []int  `json:"ids,omitempty"`
	ID    int    `json:"id,omitempty"`
	Size  int    `json:"size,omitempty"`
	Days  int    `json:"days,omitempty"`
	Age   int    `json:"ageDays,omitempty"`
}

type wScript struct {
	DataDir string `json:"dataDir"`
	Prior   []wOp  `json:"prior"`
	Script  []wOp  `json:"script"`
}

func histWorker(args []string) int {
	b, err := os.ReadFile(args[0])
	if err != nil {
		return 3
	}
	var sc wScript
	if err := json.Unmarshal(b, &sc); err != nil {
		return 3
	}
	ack := os.NewFile(3, "ack")
	server := jsondb.New(sc.DataDir, false)
	var inflight *jsondb.JSONDB
	var inflightOp wOp
	do := func(o wOp) error {
		switch o.Op {
		case "record":
			db := jsondb.New(sc.DataDir, false)
			start := time.UnixMilli(o.Start).UTC()
			if err := db.Open(o.Dag, start, o.Req); err != nil {
				return err
			}
			for _, id := range o.IDs {
				if err := db.Write(mkStatus(o.Dag, o.Req, start, id, o.Size)); err != nil {
					return err
				}
			}
			if err := db.Close(); err != nil {
				return err
			}
			if o.Age > 0 {
				if sf, err := jsondb.New(sc.DataDir, false).FindByRequestID(o.Dag, o.Req); err == nil {
					t := time.Now().Add(-time.Duration(o.Age)*24*time.Hour - 6*time.Hour)
					_ = os.Chtimes(sf.File, t, t)
				}
			}
		case "record-noclose":
			// a run whose process was killed before Close: several lines, not compacted
			db := jsondb.New(sc.DataDir, false)
			start := time.UnixMilli(o.Start).UTC()
			if err := db.Open(o.Dag, start, o.Req); err != nil {
				return err
			}
			for _, id := range o.IDs {
				if err := db.Write(mkStatus(o.Dag, o.Req, start, id, o.Size)); err != nil {
					return err
				}
			}
		case "open":
			inflight = jsondb.New(sc.DataDir, false)
			inflightOp = o
			return inflight.Open(o.Dag, time.UnixMilli(o.Start).UTC(), o.Req)
		case "write":
			return inflight.Write(mkStatus(inflightOp.Dag, inflightOp.Req, time.UnixMilli(inflightOp.Start).UTC(), o.ID, o.Size))
		case "close":
			return inflight.Close()
		case "update":
			return server.Update(o.Dag, o.Req, mkStatus(o.Dag, o.Req, time.UnixMilli(o.Start).UTC(), o.ID, o.Size))
		case "rename":
			return server.Rename(o.Dag, o.To)
		case "removeold":
			return server.RemoveOld(o.Dag, o.Days)
		}
		return nil
	}
	for _, o := range sc.Prior {
		if err := do(o); err != nil {
			fmt.Fprintln(os.Stderr, "prior op failed:", err)
			return 4
		}
	}
	// numbering of watched system calls starts here
	if f, err := os.Open("/verif-marker-begin"); err == nil {
		f.Close()
	}
	for i, o := range sc.Script {
		if err := do(o); err != nil {
			fmt.Fprintf(ack, "ERR %d %v\n", i, err)
			continue
		}
		fmt.Fprintf(ack, "ACK %d\n", i)
	}
	return 0
}

func init() { core.Sub["histworker"] = histWorker }

// ---- scenarios -----------------------------------------------------------------

type c07Scenario struct {
	Name   string
	Prior  []wOp
	Script []wOp
}

func c07Scenarios(root string, big bool) []c07Scenario {
	dagA := filepath.Join(root, "dags", "alpha.yaml")
	dagB := filepath.Join(root, "dags", "beta b.yaml")
	now := time.Now().UTC()
	base := time.Date(now.Year(), now.Month(), now.Day(), 6, 0, 0, 0, time.UTC).UnixMilli()
	id := 100
	nid := func() int { id++; return id }
	nreq := 0
	req := func() string { nreq++; return fmt.Sprintf("%08d-q", nreq) }
	rec := func(dag string, off int64, n, size, age int) wOp {
		o := wOp{Op: "record", Dag: dag, Req: req(), Start: base + off, Size: size, Age: age}
		for i := 0; i < n; i++ {
			o.IDs = append(o.IDs, nid())
		}
		return o
	}
	priors := [][]wOp{
		{},
		{rec(dagA, 0, 2, 200, 0)},
		{rec(dagA, 0, 2, 200, 10), rec(dagA, 1000, 3, 200, 0), rec(dagB, 500, 1, 200, 0)},
		{rec(dagA, 0, 1, 200, 0), rec(dagA, 100, 1, 200, 0), rec(dagA, -86400000, 2, 200, 40)},
	}
	// a long history: sorting 12 or more file names is no longer done by a stable insertion
	// sort, so the two copies of a run in compaction can come out in either order
	long := []wOp{}
	for i := 0; i < 14; i++ {
		long = append(long, rec(dagA, int64(-3600000+i*61000), 1, 200, 0))
	}
	priors = append(priors, long)
	if big {
		priors = append(priors,
			[]wOp{rec(dagB, 0, 4, 6000, 5), rec(dagB, 60000, 1, 6000, 0)},
			[]wOp{rec(dagA, 0, 1, 200, 2), rec(dagA, 1, 1, 200, 2), rec(dagA, 2, 1, 200, 2), rec(dagB, 2, 2, 200, 10)},
		)
	}
	var out []c07Scenario
	for pi, p := range priors {
		sizes := []int{200, 9000}
		for _, sz := range sizes {
			for nw := 1; nw <= 3; nw++ {
				if !big && nw == 3 {
					continue
				}
				r := req()
				s := []wOp{{Op: "open", Dag: dagA, Req: r, Start: base + 7200000 + int64(nw)}}
				for i := 0; i < nw; i++ {
					s = append(s, wOp{Op: "write", ID: nid(), Size: sz})
				}
				s = append(s, wOp{Op: "close"})
				out = append(out, c07Scenario{fmt.Sprintf("new-run(p%d,w%d,s%d)", pi, nw, sz), p, s})
			}
		}
		var firstA *wOp
		for i := range p {
			if p[i].Dag == dagA && firstA == nil {
				firstA = &p[i]
			}
		}
		if firstA != nil {
			out = append(out, c07Scenario{fmt.Sprintf("update(p%d)", pi), p,
				[]wOp{{Op: "update", Dag: dagA, Req: firstA.Req, Start: firstA.Start, ID: nid(), Size: 300}}})
			out = append(out, c07Scenario{fmt.Sprintf("rename(p%d)", pi), p,
				[]wOp{{Op: "rename", Dag: dagA, To: filepath.Join(root, "dags", "gamma.yaml")}}})
			out = append(out, c07Scenario{fmt.Sprintf("removeold(p%d)", pi), p,
				[]wOp{{Op: "removeold", Dag: dagA, Days: 7}}})
			// manual update of a run whose process had been killed before Close (several lines)
			unclosed := wOp{Op: "record-noclose", Dag: dagA, Req: req(), Start: base + 3000 + int64(pi), Size: 200, IDs: []int{nid(), nid(), nid()}}
			out = append(out, c07Scenario{fmt.Sprintf("update-of-unclosed-run(p%d)", pi), append(append([]wOp{}, p...), unclosed),
				[]wOp{{Op: "update", Dag: dagA, Req: unclosed.Req, Start: unclosed.Start, ID: nid(), Size: 150}}})
			// a second run right after another one's compaction
			r := req()
			out = append(out, c07Scenario{fmt.Sprintf("update+new-run(p%d)", pi), p, []wOp{
				{Op: "update", Dag: dagA, Req: firstA.Req, Start: firstA.Start, ID: nid(), Size: 100},
				{Op: "open", Dag: dagA, Req: r, Start: base + 9000000}, {Op: "write", ID: nid(), Size: 100}, {Op: "close"}}})
		}
	}
	return out
}

// ---- oracle --------------------------------------------------------------------

type c07Run struct {
	dag      string
	req      string
	start    int64
	okIDs    map[int]bool // acceptable last write ids
	mayMiss  bool
	altDag   string // during an un-acked rename the run may be under this name instead
	age      int
	hasAcked bool // has acknowledged data
}

func c07Expected(sc c07Scenario, nAcked int, killed bool) []*c07Run {
	var runs []*c07Run
	find := func(dag, req string) *c07Run {
		for _, r := range runs {
			if r.dag == dag && r.req == req {
				return r
			}
		}
		return nil
	}
	var cur *c07Run
	apply := func(o wOp, acked bool) {
		switch o.Op {
		case "record", "record-noclose":
			runs = append(runs, &c07Run{dag: o.Dag, req: o.Req, start: o.Start, okIDs: map[int]bool{o.IDs[len(o.IDs)-1]: true}, age: o.Age, hasAcked: true})
		case "open":
			cur = &c07Run{dag: o.Dag, req: o.Req, start: o.Start, okIDs: map[int]bool{}, mayMiss: true}
			runs = append(runs, cur)
		case "write":
			if acked {
				cur.okIDs = map[int]bool{o.ID: true}
				cur.mayMiss = false
				cur.hasAcked = true
			} else {
				cur.okIDs[o.ID] = true // an un-acked write may already be there
			}
		case "close":
		case "update":
			if r := find(o.Dag, o.Req); r != nil {
				if acked {
					r.okIDs = map[int]bool{o.ID: true}
				} else {
					r.okIDs[o.ID] = true
				}
			}
		case "rename":
			for _, r := range runs {
				if r.dag == o.Dag {
					if acked {
						r.dag = o.To
					} else {
						r.altDag = o.To
					}
				}
			}
		case "removeold":
			for _, r := range runs {
				if r.dag == o.Dag && r.age >= o.Days {
					r.mayMiss = true
					r.hasAcked = false
				}
			}
		}
	}
	for _, o := range sc.Prior {
		apply(o, true)
	}
	for i, o := range sc.Script {
		if i < nAcked {
			apply(o, true)
		} else if i == nAcked && killed {
			apply(o, false)
			break
		} else if !killed {
			apply(o, true)
		}
	}
	return runs
}

func c07Judge(dataDir string, sc c07Scenario, nAcked int, killed bool, where string) (rs []Report, nobl int) {
	add := func(check, f string, a ...any) {
		rs = append(rs, Report{"C07", check + "|" + scenarioClass(sc.Name) + "|" + where, fmt.Sprintf(f, a...)})
	}
	runs := c07Expected(sc, nAcked, killed)
	defer func() {
		if p := recover(); p != nil {
			add("panic", "history query panicked on the surviving directory: %v", p)
		}
	}()
	db := jsondb.New(dataDir, false)
	byDag := map[string][]*c07Run{}
	for _, r := range runs {
		nobl++
		names := []string{r.dag}
		if r.altDag != "" {
			names = append(names, r.altDag)
		}
		found := 0
		for _, n := range names {
			sf, err := db.FindByRequestID(n, r.req)
			if err != nil {
				continue
			}
			found++
			if id := writeID(sf.Status); !r.okIDs[id] {
				add("stale-status", "run %s of %s is returned with write w%d; acceptable after the acknowledged operations: %v", r.req, filepath.Base(n), id, keysOf(r.okIDs))
			}
			byDag[n] = append(byDag[n], r)
		}
		if found == 0 {
			if !r.mayMiss {
				add("lost-run", "run %s of %s (acknowledged) is no longer returned by FindByRequestID", r.req, filepath.Base(r.dag))
			}
			if r.hasAcked || !r.mayMiss {
				byDag[r.dag] = append(byDag[r.dag], r)
			}
		}
	}
	for dag, rr := range byDag {
		var must []*c07Run
		for _, r := range rr {
			if r.hasAcked && !r.mayMiss {
				must = append(must, r)
			}
		}
		if len(must) == 0 {
			continue
		}
		nobl += 2
		// latest-status query must answer, and not with something older than acknowledged data
		st, err := db.ReadStatusToday(dag)
		if err != nil {
			add("today-error", "ReadStatusToday(%s) fails with %q although %d run(s) with acknowledged data exist", filepath.Base(dag), err.Error(), len(must))
		} else {
			sort.Slice(must, func(i, j int) bool { return must[i].start > must[j].start })
			newest := must[0]
			ok := false
			for _, r := range rr {
				if r.req == st.RequestID && r.start >= newest.start {
					ok = true
				}
			}
			if !ok {
				add("today-hides", "ReadStatusToday(%s) returns run %s although the more recently started run %s has acknowledged data", filepath.Base(dag), st.RequestID, newest.req)
			}
		}
		got := db.ReadStatusRecent(dag, len(rr))
		seen := map[string]int{}
		for _, sf := range got {
			seen[sf.Status.RequestID]++
		}
		for _, r := range must {
			if seen[r.req] == 0 {
				dup := ""
				for id, n := range seen {
					if n > 1 {
						dup = fmt.Sprintf(" (run %s is listed %d times)", id, n)
					}
				}
				add("recent-hides", "ReadStatusRecent(%s, %d) does not contain run %s which has acknowledged data%s", filepath.Base(dag), len(rr), r.req, dup)
			}
		}
	}
	return rs, nobl
}

func keysOf(m map[int]bool) []int {
	var ks []int
	for k := range m {
		ks = append(ks, k)
	}
	sort.Ints(ks)
	return ks
}

func scenarioClass(name string) string {
	if i := strings.Index(name, "("); i > 0 {
		return name[:i]
	}
	return name
}

func c07Body(c *core.Ctx) {
	if gate.Sysgate() == "" {
		c.Inconclusive("sysgate not built")
		return
	}
	self, _ := os.Executable()
	big := !c.Quick()
	protoRoot := "/tmp/verif-c07-root" // scenario paths are rewritten per trial
	scs := c07Scenarios(protoRoot, big)
	tears := []float64{0.5}
	if big {
		tears = []float64{0.0001, 0.25, 0.5, 0.9999}
	}
	idx := 0
	for si, sc := range scs {
		if !c.Mine(idx) {
			idx++
			continue
		}
		c.Begin(idx, map[string]any{"scenario": sc.Name})
		run := func(killAt int, tear float64) (*gate.Result, string, error) {
			root, err := os.MkdirTemp(c.Scratch, "c07-")
			if err != nil {
				return nil, "", err
			}
			b, _ := json.Marshal(wScript{DataDir: filepath.Join(protoRoot, "data"), Prior: sc.Prior, Script: sc.Script})
			b = []byte(strings.ReplaceAll(string(b), protoRoot, root))
			sf := filepath.Join(root, "script.json")
			_ = os.WriteFile(sf, b, 0644)
			res, err := gate.Run(gate.Opts{Watch: []string{filepath.Join(root, "data")}, FromMarker: true, KillAt: killAt, Tear: tear,
				Env: []string{"TZ=UTC"}, Timeout: 60 * time.Second}, c.Scratch, self, "histworker", sf)
			return res, root, err
		}
		// 1. count
		res, root, err := run(0, 0)
		if err != nil || res.TimedOut || res.ExitCode != 0 {
			c.Inconclusive(fmt.Sprintf("scenario %s: count run failed: %v exit=%d out=%s", sc.Name, err, res.ExitCode, res.Stdout))
			os.RemoveAll(root)
			c.End(idx)
			idx++
			continue
		}
		scLocal := sc
		rewrite := func(sc c07Scenario, root string) c07Scenario {
			b, _ := json.Marshal(sc)
			var out c07Scenario
			_ = json.Unmarshal([]byte(strings.ReplaceAll(string(b), protoRoot, root)), &out)
			return out
		}
		// the un-killed run must satisfy the oracle too (sanity of the model)
		rs, nob := c07Judge(filepath.Join(root, "data"), rewrite(scLocal, root), len(sc.Script), false, "no-kill")
		c.Count("obligations", int64(nob))
		for _, r := range rs {
			c.Violate(idx, r.Key, r.What, map[string]any{"scenario": sc.Name, "kill_at": 0})
		}
		os.RemoveAll(root)
		N := len(res.Events)
		c.Count("watched_syscalls_total", int64(N))
		for _, ev := range res.Events {
			c.SetAdd("crash_point_labels", ev.Label())
		}
		// 2. kill before every watched call; tear every write
		type trial struct {
			k    int
			tear float64
		}
		var trials []trial
		for k := 1; k <= N; k++ {
			trials = append(trials, trial{k, 0})
			if strings.HasPrefix(res.Events[k-1].Name, "write") && res.Events[k-1].Len > 1 {
				for _, t := range tears {
					trials = append(trials, trial{k, t})
				}
			}
		}
		for _, t := range trials {
			kres, kroot, err := run(t.k, t.tear)
			if err != nil || kres.TimedOut {
				c.Inconclusive(fmt.Sprintf("scenario %s kill %d: %v", sc.Name, t.k, err))
				os.RemoveAll(kroot)
				continue
			}
			c.Eval(1)
			if !kres.Killed {
				c.Count("kill_point_not_reached", 1)
				os.RemoveAll(kroot)
				continue
			}
			nAck := 0
			for _, a := range kres.Acks {
				if strings.HasPrefix(a, "ACK ") {
					nAck++
				}
			}
			where := res.Events[t.k-1].Label()
			if t.tear > 0 {
				where += "|torn"
				c.Count("torn_writes", 1)
			}
			c.Count("kills", 1)
			rs, nob := c07Judge(filepath.Join(kroot, "data"), rewrite(scLocal, kroot), nAck, true, where)
			c.Count("obligations", int64(nob))
			seen := map[string]bool{}
			for _, r := range rs {
				if !seen[r.Key] {
					seen[r.Key] = true
					c.Violate(idx, r.Key, r.What, map[string]any{"scenario": sc.Name, "kill_at": t.k, "tear": t.tear, "syscall": res.Events[t.k-1], "acked_ops": nAck, "script": sc.Script})
				}
			}
			if len(rs) == 0 {
				// what the NEXT run of the DAG does first: the retention clean-up (with a period no
				// run has reached, it must remove nothing); then everything is asked again
				scK := rewrite(scLocal, kroot)
				dags := map[string]bool{}
				for _, o := range append(append([]wOp{}, scK.Prior...), scK.Script...) {
					if o.Dag != "" {
						dags[o.Dag] = true
					}
					if o.To != "" {
						dags[o.To] = true
					}
				}
				func() {
					defer func() { _ = recover() }()
					cdb := jsondb.New(filepath.Join(kroot, "data"), false)
					for d := range dags {
						_ = cdb.RemoveOld(d, 3650)
					}
				}()
				rs2, nob2 := c07Judge(filepath.Join(kroot, "data"), scK, nAck, true, where+"|after-the-next-run's-clean-up")
				c.Count("obligations", int64(nob2))
				c.Count("clean_ups_after_a_kill", 1)
				for _, r := range rs2 {
					if !seen[r.Key] {
						seen[r.Key] = true
						c.Violate(idx, r.Key, r.What, map[string]any{"scenario": sc.Name, "kill_at": t.k, "tear": t.tear, "syscall": res.Events[t.k-1], "acked_ops": nAck, "script": sc.Script, "then": "RemoveOld(3650 days) by a fresh store, as the next run does at its start"})
					}
				}
			}
			c.Sig(sc.Name, t.k, t.tear)
			if si%5 == 0 && t.k == 3 {
				c.Sample(map[string]any{"scenario": sc.Name, "kill_at": t.k, "of": N, "syscall": res.Events[t.k-1], "acked_ops": nAck, "script": sc.Script})
			}
			os.RemoveAll(kroot)
		}
		c.End(idx)
		idx++
	}
}

func init() {
	core.Register(&core.Prop{ID: "C07", Level: "fault_enumeration", Body: c07Body, CrashKey: crashKeyGeneric, MinDistinct: 30,
		Passes: func(tier string) []core.Pass {
			return []core.Pass{{Name: "main", Mode: "kill", Shards: 16, Timeout: 60 * time.Minute}}
		},
		Exhaustive: func(tier string) bool { return true },
		Rule:       "A recording worker process (the harness binary calling the real jsondb) first builds a prior history of completed runs (5 (7) priors over 1-2 DAG files: none, one run, runs aged 10/40 days, same-100-ms runs, a long history of 14 runs) and then executes a script: {Open, 1-2 (1-3) Write, Close-with-compaction} with 200 B (and 9 KB, two-syscall) status lines, {Update of an older run}, {Rename}, {RemoveOld 7 days}, {Update then a new run}. The ptrace supervisor sysgate numbers every watched system call of the script phase under the data directory (openat-w, write, fsync, close, unlinkat, renameat, mkdirat) and the check ENUMERATES them: the worker is SIGKILLed before EVERY call k, and every write is additionally torn at 1/2 (thorough: 1 byte, 1/4, 1/2, L-1) of its length and then killed. The worker acknowledges each completed operation on a pipe. Oracle on the surviving directory with a fresh store: every previously completed run is returned by FindByRequestID with its last write id (during an un-acked Update old or new; during an un-acked Rename under the old or the new name, never neither; during an un-acked RemoveOld only runs older than the retention may be missing); the interrupted run is returned with a write id >= the last acknowledged; ReadStatusToday answers without error and not with a run older than acknowledged data; ReadStatusRecent(n) contains every run with acknowledged data (a run listed twice pushes another out); no query panics; then a fresh store runs the retention clean-up the next run of the DAG starts with (a period no run has reached) and every query is asked again. exhaustive=true refers to the enumeration of system-call boundaries of these scripts. Non-trivial = each kill that was delivered. Distinct = (scenario, k, tear).",
		Assumptions: []string{"SIGKILL loses user-space buffers but not the page cache; power loss / fsync ordering is out of scope of the statement",
			"crash points are the system-call boundaries of the recording process under the data directory"}})
}
