package props

import (
	"fmt"
	"os"
	"path/filepath"
	"time"

	dsclient "github.com/ErdemOzgen/blackdagger/internal/persistence/client"
	"github.com/ErdemOzgen/blackdagger/internal/persistence/model"
	"github.com/ErdemOzgen/blackdagger/verifh/core"
	"github.com/ErdemOzgen/blackdagger/verifh/vexec"
)

// c08Live is called on the scheduler's loop goroutine at quiescent decision
// points: every worker is parked in a gate or has exited, so the ground truth
// (open runs, attempts so far) cannot change while the status is fetched over
// the real unix socket.
func c08Live(spec *vexec.CaseSpec) func(c *vexec.Case, r *vexec.Runner) {
	n := 0
	return func(c *vexec.Case, r *vexec.Runner) {
		n++
		if n%2 == 0 || r.Client == nil || r.DAG == nil {
			return
		}
		st, err := r.Client.GetCurrentStatus(r.DAG)
		if err != nil {
			r.AddLive("live-error|status endpoint failed during the run: " + err.Error())
			return
		}
		open := map[string]bool{}
		for _, s := range c.OpenSteps(false) {
			open[s] = true
		}
		att := map[string]int{}
		exited := map[string]int{}
		for _, e := range c.Events() {
			switch e.Kind {
			case "RUN_ENTER":
				att[e.Step]++
			case "RUN_EXIT":
				exited[e.Step]++
			}
		}
		bad := ""
		if st.Status.String() != "running" {
			bad = fmt.Sprintf("live-dag-status|DAG reported %q while the run is in progress", st.Status.String())
		}
		if st.RequestID == "" {
			bad = "live-reqid|live status carries no request id"
		}
		for _, nd := range st.Nodes {
			name := nd.Step.Name
			switch {
			case open[name] && nd.Status.String() != "running":
				bad = fmt.Sprintf("live-node-open|step %s has an open Run() but is reported %q", name, nd.Status.String())
			case (nd.Status.String() == "finished" || nd.Status.String() == "failed") && att[name] > exited[name]:
				bad = fmt.Sprintf("live-node-early|step %s is reported %q while its attempt %d has not returned", name, nd.Status.String(), att[name])
			case nd.Status.String() == "finished" && att[name] == 0:
				bad = fmt.Sprintf("live-node-phantom|step %s is reported finished but was never executed", name)
			}
			if att[name] > 0 && open[name] && nd.RetryCount != att[name]-1 {
				bad = fmt.Sprintf("live-retrycount|step %s is in attempt %d but its live retry count is %d", name, att[name], nd.RetryCount)
			}
		}
		r.AddLive(bad)
	}
}

// c08Final compares what a FRESH store reads from disk after the run with the
// ground truth held in memory (node states) and in the event log.
func c08Final(spec *vexec.CaseSpec, out *vexec.Outcome) (rs []Report, obligations int) {
	add := func(key, f string, a ...any) { rs = append(rs, Report{"C08", key, fmt.Sprintf(f, a...)}) }
	if out.DAG == nil || out.LastStatus == nil {
		return nil, 0
	}
	obligations++
	for _, t := range out.LateText {
		add("late-write", "a status write from the node-status writer goroutine raced with the end of the run: %s", t)
	}
	fresh := dsclient.NewDataStores(filepath.Dir(out.DAG.Location), out.DataDir, filepath.Join(filepath.Dir(out.DataDir), "suspend"), dsclient.DataStoreOptions{})
	hs := fresh.HistoryStore()
	sf, err := hs.FindByRequestID(out.DAG.Location, out.ReqID)
	if err != nil {
		add("final-missing", "after the run ended, the run %s cannot be found in the history: %v", out.ReqID, err)
		return rs, obligations
	}
	rec := hs.ReadStatusRecent(out.DAG.Location, 1)
	if len(rec) != 1 || rec[0].Status.RequestID != out.ReqID {
		add("final-recent", "after the run ended, the recent-history query does not return it")
	}
	ps := sf.Status
	want := out.LastStatus
	obligations++
	if ps.Status != want.Status {
		add("final-dag-status", "persisted DAG status %q differs from the final state %q the agent reported when it ended", ps.Status.String(), want.Status.String())
	}
	if ps.Status.String() == "running" || ps.Status.String() == "not started" {
		add("final-not-final", "the last persisted status of a run that has ended is %q", ps.Status.String())
	}
	ex := out.Executions()
	cmpNode := func(kind string, pn *model.Node, truth vexec.NodeFinal, executions int, hasTruth bool) {
		if pn == nil {
			return
		}
		obligations++
		name := pn.Step.Name
		if hasTruth {
			if pn.Status.String() != truth.Status {
				add("final-node-status", "%s %s: persisted status %q, actual final state %q", kind, name, pn.Status.String(), truth.Status)
			}
			if pn.RetryCount != truth.RetryCount {
				add("final-node-retry", "%s %s: persisted retry count %d, actual %d", kind, name, pn.RetryCount, truth.RetryCount)
			}
			if pn.Log != truth.Log {
				add("final-node-log", "%s %s: persisted log path %q, actual %q", kind, name, pn.Log, truth.Log)
			}
		}
		if executions > 0 {
			// judged only for steps that ran to their own end: a stop may catch a
			// step after its retry was counted and before the next attempt
			if pn.RetryCount != executions-1 && (truth.Status == "finished" || truth.Status == "failed") && out.StopSeq < 0 {
				add("final-attempts", "%s %s was executed %d time(s) but its persisted retry count is %d", kind, name, executions, pn.RetryCount)
			}
			if pn.Log == "" {
				add("final-nolog", "%s %s was executed but has no log path", kind, name)
			} else if _, err := os.Stat(pn.Log); err != nil {
				add("final-logfile", "%s %s: log file %s does not exist", kind, name, pn.Log)
			}
		}
		sa, e1 := time.Parse(time.RFC3339, pn.StartedAt)
		fa, e2 := time.Parse(time.RFC3339, pn.FinishedAt)
		if e1 == nil && e2 == nil && fa.Before(sa) {
			add("final-times", "%s %s: finished %s before started %s", kind, name, pn.FinishedAt, pn.StartedAt)
		}
		if (pn.Status.String() == "failed" && pn.Error == "") || (pn.Status.String() == "finished" && pn.Error != "") {
			add("final-error-text", "%s %s: status %q but error text %q", kind, name, pn.Status.String(), pn.Error)
		}
	}
	for _, pn := range ps.Nodes {
		t, ok := out.Final[pn.Step.Name]
		cmpNode("step", pn, t, ex[pn.Step.Name], ok)
	}
	if len(ps.Nodes) != len(spec.Steps) {
		add("final-node-count", "persisted status has %d nodes, the DAG has %d steps", len(ps.Nodes), len(spec.Steps))
	}
	for t, pn := range map[string]*model.Node{"onExit": ps.OnExit, "onSuccess": ps.OnSuccess, "onFailure": ps.OnFailure, "onCancel": ps.OnCancel} {
		if spec.Handlers[t] == nil {
			continue
		}
		if pn == nil {
			add("final-handler-missing", "handler %s is configured but absent from the persisted status", t)
			continue
		}
		tr, ok := out.HandlerFinal[t]
		cmpNode("handler", pn, tr, ex[t], ok)
	}
	return rs, obligations
}

func c08Body(c *core.Ctx) {
	if c.Mode == "crash" {
		c08CrashBody(c)
		return
	}
	if c.Mode == "orphan" {
		c08OrphanBody(c)
		return
	}
	if c.Mode == "fault" {
		c08FaultBody(c)
		return
	}
	vexec.Init()
	gen := GenOpts{MaxN: 4, Retries: true, Preconds: true, ContinueOn: true, Failures: true, MaxActive: true, Handlers: true, Outputs: true}
	handle := func(idx int, spec *vexec.CaseSpec, out *vexec.Outcome, what string) {
		c.Eval(1)
		if out.Inconclusive != "" {
			c.Inconclusive(fmt.Sprintf("case %d: %s", idx, out.Inconclusive))
			return
		}
		if out.SetupErr != "" {
			c.Inconclusive(fmt.Sprintf("case %d: setup: %s", idx, out.SetupErr))
			return
		}
		rs, n := c08Final(spec, out)
		c.Count("obligations", int64(n)+int64(out.LiveChecks))
		c.Count("live_status_queries", int64(out.LiveChecks))
		c.Count("history_writes_observed", int64(out.WriteCount))
		c.Count(what, 1)
		seen := map[string]bool{}
		for _, b := range out.LiveBad {
			k, w := b, b
			for i := 0; i < len(b); i++ {
				if b[i] == '|' {
					k, w = b[:i], b[i+1:]
					break
				}
			}
			if !seen[k] {
				seen[k] = true
				c.Violate(idx, k, w, spec)
			}
		}
		for _, r := range rs {
			if !seen[r.Key] {
				seen[r.Key] = true
				c.Violate(idx, r.Key, r.What, map[string]any{"case": spec, "mode": what})
			}
		}
		c.Sig(what, ShapeSig(spec), TraceSig(out))
		c.Sample(map[string]any{"case": spec, "mode": what, "writes": out.WriteCount, "live_queries": out.LiveChecks, "final_status": out.Status})
		if out.DataDir != "" {
			_ = os.RemoveAll(filepath.Dir(out.DataDir))
		}
	}
	mk := func(idx int, stream string) *vexec.CaseSpec {
		r := c.Rand(stream, idx)
		spec := GenDAG(r, fmt.Sprintf("C08_%s%d", stream, idx), gen)
		spec.Level = "agent"
		spec.DelayMs = 0
		for _, s := range spec.Steps {
			s.RetryMs = 0
		}
		if r.Intn(100) < 20 {
			spec.Stop = &vexec.StopSpec{Kind: []string{"signal", "http"}[r.Intn(2)], At: "decision", Nth: 2 + r.Intn(8)}
			spec.MaxCleanUpMs = 200
		}
		return spec
	}
	idx := 0
	if c.Mode != "controlled" {
		idx = 1 << 20
		nf := c.Pick(300, 6000)
		for i := 0; i < nf; i++ {
			if c.Mine(idx) {
				spec := mk(idx, "f")
				spec.Free = true
				spec.Stop = nil
				c.Begin(idx, spec)
				handle(idx, spec, vexec.Run(spec, &vexec.RunOpts{Scratch: c.Scratch, KeepDirs: true}), "free_runs")
				c.End(idx)
			}
			idx++
		}
		return
	}
	// (1)+(2): live queries at barriers, final status from a fresh store
	na := c.Pick(400, 8000)
	for i := 0; i < na; i++ {
		if c.Mine(idx) {
			spec := mk(idx, "l")
			c.Begin(idx, spec)
			out := vexec.Run(spec, &vexec.RunOpts{Scratch: c.Scratch, KeepDirs: true, AtBarrier: c08Live(spec)})
			handle(idx, spec, out, "live_runs")
			c.End(idx)
		}
		idx++
	}
	// (2b): every history write of the run delayed in turn (fault injection at
	// the store boundary): the persisted final status must still be the truth
	nd := c.Pick(60, 1200)
	for i := 0; i < nd; i++ {
		if c.Mine(idx) {
			spec := mk(idx, "d")
			spec.Stop = nil
			c.Begin(idx, spec)
			base := vexec.Run(spec, &vexec.RunOpts{Scratch: c.Scratch, KeepDirs: true})
			handle(idx, spec, base, "delay_base_runs")
			for k := 1; k <= base.WriteCount && k <= 12; k++ {
				cs := *spec
				cs.ID = fmt.Sprintf("%s.w%d", spec.ID, k)
				// while write #k is held back the run is alive and has not recorded that status:
				// whoever asks (the client the web server and the daemon use) must be told "running"
				var seen string
				kk := k
				out := vexec.Run(&cs, &vexec.RunOpts{Scratch: c.Scratch, KeepDirs: true, WriteDelayAt: k, WriteDelay: 40 * time.Millisecond,
					DuringDelay: func(r *vexec.Runner, n int, st *model.Status) {
						if r.DAG == nil || r.Client == nil || st.Status.String() == "not started" {
							return // the record written before the run starts (its socket is not up yet)
						}
						got, err := r.Client.GetLatestStatus(r.DAG)
						switch {
						case err != nil:
							seen = "error: " + err.Error()
						case got.Status.String() != "running":
							seen = fmt.Sprintf("%s (request id %q; the status being written: %s)", got.Status, got.RequestID, st.Status)
						default:
							seen = "ok"
						}
					}})
				c.Count("delay_injections", 1)
				if seen != "" {
					c.Count("obligations", 1)
					c.Count("status_queries_during_a_pending_write", 1)
					if seen != "ok" {
						c.Violate(idx, "live-status-during-write", fmt.Sprintf("while history write #%d of %d of a run in progress was pending, the latest status of the DAG was reported as %s instead of running", kk, base.WriteCount, seen), map[string]any{"case": &cs, "write": kk})
					}
				}
				handle(idx, &cs, out, "delayed_write_runs")
			}
			c.End(idx)
		}
		idx++
	}
}

func init() {
	core.RaceGate["C08"] = append(append([]string{}, nodeAccessors...), schedAccessors...)
	core.Register(&core.Prop{ID: "C08", Level: "exploration", Body: c08Body, CrashKey: crashKeyGeneric, MinDistinct: 30,
		Passes: func(tier string) []core.Pass {
			return []core.Pass{
				{Name: "main", Mode: "controlled", Shards: 16, Timeout: 60 * time.Minute},
				{Name: "race", Mode: "free", Race: true, Shards: 16, Timeout: 60 * time.Minute},
				{Name: "crash", Mode: "crash", Shards: 16, Timeout: 60 * time.Minute},
				{Name: "fault", Mode: "fault", Shards: 12, Timeout: 60 * time.Minute},
				{Name: "orphan", Mode: "orphan", Shards: 12, Timeout: 60 * time.Minute},
			}
		},
		Rule: "Agent-level executions (real Agent.Run, real jsondb directory, real unix socket) of generated DAGs (<=4 steps, retries, continueOn, preconditions, handlers, 20% with a stop). (1) LIVE: at quiescent barriers of the controller (every worker parked in a gate or exited) the status is fetched through client.GetCurrentStatus over the socket and compared with the ground truth of the scripted executor: DAG running, a step with an open Run() reported running, no step reported finished/failed before its attempt returned, live retry count == attempts-1. (2) FINAL: after Agent.Run returned a FRESH store reads the run back from disk (FindByRequestID + ReadStatusRecent) and every field is compared with the in-memory final node states and the execution counts (DAG status, per-step status, retry count, log path set and existing, start<=finish, error text iff failed, handler nodes). (2b) FAULT INJECTION at the store boundary: for each generated DAG every history write #k of the run is delayed by 40 ms in turn (a descheduled writer goroutine / slow disk); a write that reaches the store after Close or a stale last line is a violation, and while the write is held back client.GetLatestStatus must report the run as running (the run is alive and has not recorded that status yet - also for the final write). (5) ORPHAN pass: the agent alone is killed with kill(2) while its second step executes (the step, in a process group of its own, lives on; with handlers, with output:; at 0/40/400 ms into the step, and once with the killed agent left unreaped - a zombie whose process ID still exists - while the checks are made); then the same checks as after a crash: status, daemon, new start. (3) CRASH pass (fault enumeration): the real `blackdagger start` of a 3-step DAG with a success and an exit handler (thorough: also 1- and 2-step DAGs, a retried step, an output variable) is SIGKILLed by the ptrace supervisor before EVERY watched system call of its life under the data directory, the log directory and its socket (about 60), and every history write is additionally torn; after each kill: client.GetLatestStatus (fresh stores) must answer, not with running, and not with succeeded unless every step's and the handler's END marker exists; client.GetAllStatus must work; a real scheduler.New daemon over the directory ticked at the DAG's next scheduled minute must spawn a start (recorder executable); a second `blackdagger start` must exit 0 and complete every step. (4) FAULT pass: while a real run is in progress one accept(2) on its status socket is made to fail by the supervisor (EMFILE, ENFILE, ENOBUFS, ECONNABORTED; the first three accepts in turn): the run must still be reported running (latest and live status) and `blackdagger stop` must still end it. Non-trivial = every executed case (each has >=1 live query or a persisted final status compared). Distinct = (mode, case, event order).",
		Assumptions: []string{"live status is judged only at quiescent barriers, never while a status flip is in flight",
			"node-level labels of a crashed run are not judged (only the DAG-level label is in the statement)"},
	})
}
