package props

// C15, base pass: the concurrency limit that comes from the BASE configuration file
// ($BLACKDAGGER_HOME/base.yaml, merged into every DAG), alone and together with a limit the
// DAG sets itself.  Real binary; five independent steps, each a child that appends BEGIN / END
// lines to one marker file (O_APPEND, one write per line: the order of the lines is the order
// of the writes).  Oracle: the number of steps between their BEGIN and END never exceeds the
// limit in force - the DAG's own where it sets one, the base's where only the base does - and
// every step completes.

import (
	"fmt"
	"os"
	"path/filepath"
	"time"

	"github.com/ErdemOzgen/blackdagger/verifh/core"
)

func c15BaseBody(c *core.Ctx) {
	self, _ := os.Executable()
	idx := 7 << 20
	const steps = 5
	for _, kb := range []int{0, 1, 2, 3} { // 0 = the base file does not set it
		for _, kd := range []int{0, 1, 2, 4} { // 0 = the DAG does not set it
			slows := []int{200}
			if !c.Quick() {
				slows = []int{120, 400}
			}
			for _, slow := range slows {
				if !c.Mine(idx) {
					idx++
					continue
				}
				limit := kd
				if limit == 0 {
					limit = kb
				}
				desc := map[string]any{"base_maxActiveRuns": kb, "dag_maxActiveRuns": kd, "limit_in_force": limit, "steps": steps, "step_ms": slow}
				c.Begin(idx, desc)
				func() {
					h, err := newBDHome(c, "c15b-")
					if err != nil {
						c.Inconclusive(err.Error())
						return
					}
					defer os.RemoveAll(h.root)
					base := "env:\n  - C15_BASE: \"1\"\n"
					if kb > 0 {
						base += fmt.Sprintf("maxActiveRuns: %d\n", kb)
					}
					_ = os.WriteFile(filepath.Join(h.home, "base.yaml"), []byte(base), 0644)
					marker := filepath.Join(h.root, "marker.txt")
					text := ""
					if kd > 0 {
						text += fmt.Sprintf("maxActiveRuns: %d\n", kd)
					}
					text += "steps:\n"
					for i := 1; i <= steps; i++ {
						text += fmt.Sprintf("  - name: s%d\n    command: %s c16step %s s%d %d\n", i, self, marker, i, slow)
					}
					loc := filepath.Join(h.dags, "wide.yaml")
					_ = os.WriteFile(loc, []byte(text), 0644)
					code, out, to := h.run(120*time.Second, "start", loc)
					c.Eval(1)
					if to {
						c.Inconclusive("c15 base: start timed out: " + clip(out, 200))
						return
					}
					open, maxOpen, ended := 0, 0, 0
					for _, e := range readMarker(marker) {
						switch e.Kind {
						case "BEGIN":
							open++
							if open > maxOpen {
								maxOpen = open
							}
						case "END":
							open--
							ended++
						}
					}
					desc["most_steps_executing_at_once"] = maxOpen
					c.Count("obligations", 2)
					c.Count("runs_with_a_base_configuration", 1)
					if limit > 0 && maxOpen >= limit {
						c.Count("runs_that_reached_their_limit", 1)
					}
					if limit == 0 && maxOpen > 1 {
						c.Count("unlimited_runs_with_steps_in_parallel", 1)
					}
					if limit > 0 && maxOpen > limit {
						c.Violate(idx, "base-over-limit", fmt.Sprintf("%d steps were executing at once; maxActiveRuns is %d in the base configuration and %d in the DAG (0 = not set), so the limit in force is %d", maxOpen, kb, kd, limit), desc)
						return
					}
					if code != 0 || ended != steps {
						c.Violate(idx, "base-incomplete", fmt.Sprintf("the run exited with status %d and %d of %d steps completed: %s", code, ended, steps, clip(out, 300)), desc)
						return
					}
					c.Sig("c15base", kb, kd, slow)
					c.Sample(desc)
				}()
				c.End(idx)
				idx++
			}
		}
	}
}
