package props

// C19 — listing, viewing and validating a DAG has no side effects.
// A "full" definition (every string-valued field present) gets a canary
// planted in one string leaf at a time; a worker process runs every
// non-executing entry point on it under the ptrace supervisor.  Three monitors:
// canary file created, os.Environ() changed, any process created (sysgate
// EXEC log between phase marks — field-agnostic).  Positive control per
// document: dag.Load must make plants in evaluated fields live.

import (
	"bytes"
	"encoding/json"
	"fmt"
	"math/rand"
	"net/http/httptest"
	"os"
	"path/filepath"
	"sort"
	"strings"
	"time"

	"github.com/ErdemOzgen/blackdagger/internal/config"
	"github.com/ErdemOzgen/blackdagger/internal/dag"
	"github.com/ErdemOzgen/blackdagger/internal/persistence"
	"github.com/ErdemOzgen/blackdagger/internal/scheduler"
	"github.com/ErdemOzgen/blackdagger/verifh/apih"
	"github.com/ErdemOzgen/blackdagger/verifh/core"
	"github.com/ErdemOzgen/blackdagger/verifh/gate"
	"gopkg.in/yaml.v2"
)

type c19Spec struct {
	Root    string   `json:"root"`
	Name    string   `json:"name"` // DAG id (file name without extension)
	Canary  string   `json:"canary"`
	EnvVars []string `json:"envVars"` // variables the document would export if evaluated
	Control bool     `json:"control"`
}

type c19Phase struct {
	Entry   string   `json:"entry"`
	Canary  bool     `json:"canary"`
	EnvDiff []string `json:"envDiff,omitempty"`
	Err     string   `json:"err,omitempty"`
	Panic   string   `json:"panic,omitempty"`
}

func envMap() map[string]string {
	m := map[string]string{}
	for _, kv := range os.Environ() {
		k, v, _ := strings.Cut(kv, "=")
		m[k] = v
	}
	return m
}

func envDiff(a, b map[string]string) []string {
	var d []string
	for k, v := range b {
		if w, ok := a[k]; !ok {
			d = append(d, "+"+k)
		} else if w != v {
			d = append(d, "~"+k)
		}
	}
	for k := range a {
		if _, ok := b[k]; !ok {
			d = append(d, "-"+k)
		}
	}
	sort.Strings(d)
	return d
}

func c19Worker(args []string) int {
	b, err := os.ReadFile(args[0])
	if err != nil {
		return 3
	}
	var sp c19Spec
	if json.Unmarshal(b, &sp) != nil {
		return 3
	}
	out := os.NewFile(3, "ack")
	file := filepath.Join(sp.Root, "dags", sp.Name+".yaml")
	text, _ := os.ReadFile(file)
	env, err := apih.New(sp.Root, "/bin/false", apih.Auth{}, false)
	if err != nil {
		fmt.Fprintln(os.Stderr, "apih:", err)
		return 4
	}
	st := env.Stores.DAGStore()
	phase := func(entry string, f func() error) {
		if fh, err := os.Open("/verif-mark/" + entry); err == nil {
			fh.Close()
		}
		before := envMap()
		ph := c19Phase{Entry: entry}
		func() {
			defer func() {
				if p := recover(); p != nil {
					ph.Panic = fmt.Sprint(p)
				}
			}()
			if err := f(); err != nil {
				ph.Err = clip(err.Error(), 200)
			}
		}()
		ph.EnvDiff = envDiff(before, envMap())
		if _, err := os.Stat(sp.Canary); err == nil {
			ph.Canary = true
			os.Remove(sp.Canary)
		}
		// undo, so that the next phase starts from the same environment
		for _, d := range ph.EnvDiff {
			k := d[1:]
			if v, ok := before[k]; ok {
				os.Setenv(k, v)
			} else {
				os.Unsetenv(k)
			}
		}
		jb, _ := json.Marshal(ph)
		fmt.Fprintf(out, "PHASE %s\n", jb)
	}
	get := func(path string) error {
		rec := httptest.NewRecorder()
		env.Handler.ServeHTTP(rec, httptest.NewRequest("GET", path, nil))
		if rec.Code >= 500 {
			return fmt.Errorf("HTTP %d", rec.Code)
		}
		return nil
	}
	post := func(path string, body any) error {
		jb, _ := json.Marshal(body)
		req := httptest.NewRequest("POST", path, bytes.NewReader(jb))
		req.Header.Set("Content-Type", "application/json")
		rec := httptest.NewRecorder()
		env.Handler.ServeHTTP(rec, req)
		if rec.Code >= 500 {
			return fmt.Errorf("HTTP %d", rec.Code)
		}
		return nil
	}
	if sp.Control {
		phase("control:Load", func() error { _, err := dag.Load("", file, ""); return err })
		return 0
	}
	phase("LoadYAML", func() error { _, err := dag.LoadYAML(text); return err })
	phase("LoadMetadata", func() error { _, err := dag.LoadMetadata(file); return err })
	phase("LoadWithoutEval", func() error { _, err := dag.LoadWithoutEval(file); return err })
	phase("DAGStore.GetMetadata", func() error { _, err := st.GetMetadata(sp.Name); return err })
	phase("DAGStore.GetDetails", func() error { _, err := st.GetDetails(sp.Name); return err })
	phase("DAGStore.GetSpec", func() error { _, err := st.GetSpec(sp.Name); return err })
	phase("DAGStore.List", func() error { _, _, err := st.List(); return err })
	phase("DAGStore.ListPagination", func() error {
		_, err := st.ListPagination(persistence.DAGListPaginationArgs{Page: 1, Limit: 10})
		return err
	})
	phase("DAGStore.Grep", func() error { _, _, err := st.Grep("touch"); return err })
	phase("DAGStore.Find", func() error { _, err := st.Find(sp.Name); return err })
	phase("DAGStore.TagList", func() error { _, _, err := st.TagList(); return err })
	phase("DAGStore.UpdateSpec", func() error { return st.UpdateSpec(sp.Name, text) })
	phase("client.GetStatus", func() error { _, err := env.Client.GetStatus(file); return err })
	phase("client.GetAllStatus", func() error { _, _, err := env.Client.GetAllStatus(); return err })
	phase("client.GetDAGSpec", func() error { _, err := env.Client.GetDAGSpec(sp.Name); return err })
	phase("client.UpdateDAG", func() error { return env.Client.UpdateDAG(sp.Name, string(text)) })
	phase("client.Grep", func() error { _, _, err := env.Client.Grep("touch"); return err })
	phase("API GET /dags", func() error { return get("/api/v1/dags") })
	phase("API GET /dags?page", func() error { return get("/api/v1/dags?page=1&limit=10") })
	for _, tab := range []string{"status", "spec", "history", "log", "scheduler-log"} {
		tab := tab
		phase("API GET /dags/{id}?tab="+tab, func() error { return get("/api/v1/dags/" + sp.Name + "?tab=" + tab) })
	}
	phase("API GET /search", func() error { return get("/api/v1/search?q=touch") })
	phase("API GET /tags", func() error { return get("/api/v1/tags") })
	phase("API POST save", func() error {
		return post("/api/v1/dags/"+sp.Name, map[string]string{"action": "save", "value": string(text)})
	})
	phase("scheduler daemon scan+tick", func() error {
		cfg := &config.Config{DAGs: filepath.Join(sp.Root, "dags"), WorkDir: sp.Root, Executable: "/bin/false", LogDir: filepath.Join(sp.Root, "logs")}
		s := scheduler.New(cfg, apih.Quiet, newCronFake())
		done := make(chan any)
		s.VerifStartWatcher(done)
		time.Sleep(20 * time.Millisecond)
		atomicWrite(file, string(text)) // the watcher reloads the file
		time.Sleep(60 * time.Millisecond)
		s.VerifTick(time.Date(2027, 6, 1, 12, 0, 0, 0, time.UTC))
		close(done)
		return nil
	})
	return 0
}

func init() { core.Sub["c19worker"] = c19Worker }

// ---- the full document and its plants ------------------------------------------------

func c19FullDoc() ym {
	cond := func(c, e string) []any { return []any{ym{kv("condition", c), kv("expected", e)}} }
	step := func(name string, extra ...yaml.MapItem) ym {
		s := ym{kv("name", name)}
		return append(s, extra...)
	}
	return ym{
		kv("name", "full"),
		kv("group", "grp"),
		kv("description", "a definition with every string field"),
		kv("tags", "one,two"),
		kv("schedule", "0 0 1 1 *"),
		kv("logDir", "/tmp/verif-c19-unused-logdir"),
		// the last two names already exist in the loading process (see c19Body)
		kv("env", []any{ym{kv("VERIF_C19_E1", "v1")}, ym{kv("VERIF_C19_E2", "v2")}, ym{kv("VERIF_C19_PRESET", "changed-by-the-definition")}, ym{kv("VERIF_C19_PRESET2", nil)}, ym{kv("PATH", "/verif-c19-bin:${PATH}")}}),
		kv("params", "p1 VERIF_C19_P=p2"),
		kv("preconditions", cond("x", "x")),
		kv("handlerOn", ym{
			kv("exit", ym{kv("command", "echo exit")}),
			kv("success", ym{kv("command", "echo success")}),
			kv("failure", ym{kv("command", "echo failure")}),
			kv("cancel", ym{kv("command", "echo cancel")}),
		}),
		kv("smtp", ym{kv("host", "h"), kv("port", "25"), kv("username", "u"), kv("password", "p")}),
		kv("errorMail", ym{kv("from", "a@b"), kv("to", "c@d"), kv("prefix", "[E]")}),
		kv("infoMail", ym{kv("from", "a@b"), kv("to", "c@d"), kv("prefix", "[I]")}),
		kv("functions", []any{ym{kv("name", "fn"), kv("params", "a"), kv("command", "echo $a")}}),
		kv("steps", []any{
			step("s1", kv("description", "d"), kv("dir", "/tmp"), kv("command", "echo one"), kv("stdout", "/tmp/verif-c19-so"), kv("stderr", "/tmp/verif-c19-se"),
				kv("output", "OUT1"), kv("preconditions", cond("y", "y")), kv("signalOnStop", "SIGTERM")),
			step("s2", kv("command", "sh"), kv("script", "echo two"), kv("depends", []any{"s1"}),
				kv("executor", ym{kv("type", "command"), kv("config", ym{kv("k", "v"), kv("nested", ym{kv("kk", "vv")}), kv("list", []any{"l1"})})})),
			step("s3", kv("command", []any{"echo", "three"})),
			step("s4", kv("call", ym{kv("function", "fn"), kv("args", ym{kv("a", "arg")})})),
			step("s5", kv("run", "sub"), kv("params", "q=1")),
			step("s6", kv("executor", "command"), kv("command", "true"), kv("env", "EK=EV")),
		}),
	}
}

type c19Case struct {
	Field   string `json:"field"`
	Plant   string `json:"plant"`
	Text    string `json:"text"`
	EnvVars []string
}

// ySetLeaf returns a copy of doc with the value at path replaced.
func ySetLeaf(doc ym, p yPath, v any) ym {
	out := yEdit(doc, p, func(parent any, idx int) any {
		switch t := parent.(type) {
		case ym:
			c := append(ym{}, t...)
			c[idx].Value = v
			return c
		case []any:
			c := append([]any{}, t...)
			c[idx] = v
			return c
		}
		return parent
	})
	return out.(ym)
}

func yPathName(root any, p yPath) string {
	v := root
	var parts []string
	for _, i := range p {
		switch t := v.(type) {
		case ym:
			parts = append(parts, fmt.Sprint(t[i.(int)].Key))
			v = t[i.(int)].Value
		case []any:
			parts = append(parts, "[]")
			v = t[i.(int)]
		}
	}
	// drop list positions of steps etc. for the finding key
	return strings.ReplaceAll(strings.Join(parts, "."), ".[]", "[]")
}

func c19Cases(canaryTag string, thorough bool) []c19Case {
	doc := c19FullDoc()
	var paths []yPath
	yWalk(doc, nil, &paths)
	plants := []struct{ name, text string }{
		{"backtick", "`touch " + canaryTag + "`"},
		{"backtick-in-text", "pre `touch " + canaryTag + "` post"},
		{"dollar-paren", "$(touch " + canaryTag + ")"},
		{"env-assign", "VERIF_C19_PLANTED=`touch " + canaryTag + "`"},
		{"quoted-backtick", "\"`touch " + canaryTag + "`\""},
		{"named-quoted-backtick", "VERIF_C19_LABEL=\"made by `touch " + canaryTag + "`\""},
	}
	var out []c19Case
	for _, p := range paths {
		leaf, ok := yGet(doc, p).(string)
		if !ok {
			continue
		}
		field := yPathName(doc, p)
		for pi, pl := range plants {
			if false && !thorough && pi >= 2 {
				continue
			}
			val := pl.text
			_ = leaf
			d := ySetLeaf(doc, p, val)
			b, err := yaml.Marshal(d)
			if err != nil {
				continue
			}
			out = append(out, c19Case{Field: field, Plant: pl.name, Text: string(b)})
		}
	}
	// params that only name values: evaluation would export 1, 2, VERIF_C19_P
	// env list / map forms with plain values
	b, _ := yaml.Marshal(doc)
	out = append(out, c19Case{Field: "(none)", Plant: "plain-full-document", Text: string(b)})
	mapEnv := ySetLeaf(doc, yPath{6}, ym{kv("VERIF_C19_E3", "`touch "+canaryTag+"`"), kv("VERIF_C19_E4", "${HOME}")})
	b, _ = yaml.Marshal(mapEnv)
	out = append(out, c19Case{Field: "env(map)", Plant: "backtick", Text: string(b)})
	// plants at random string leaves of randomly generated valid definitions
	// (other combinations of fields than the full document has)
	nrand := 24
	if thorough {
		nrand = 600
	}
	rr := rand.New(rand.NewSource(20260930))
	for i := 0; i < nrand; i++ {
		rd := genDoc(rr)
		if i%2 == 1 {
			rd = genExecDoc(rr)
		}
		var rp []yPath
		yWalk(rd, nil, &rp)
		var leaves []yPath
		for _, p := range rp {
			if _, ok := yGet(rd, p).(string); ok {
				leaves = append(leaves, p)
			}
		}
		if len(leaves) == 0 {
			continue
		}
		p := leaves[rr.Intn(len(leaves))]
		pl := plants[rr.Intn(len(plants))]
		b, err := yaml.Marshal(ySetLeaf(rd, p, pl.text))
		if err != nil {
			continue
		}
		out = append(out, c19Case{Field: fmt.Sprintf("random-doc-%d:%s", i, yPathName(rd, p)), Plant: pl.name, Text: string(b)})
	}
	if thorough {
		// the same plants in a document that is otherwise minimal, and duplicated placements
		for _, fld := range []string{"logDir", "params", "description", "name"} {
			for _, pl := range plants {
				t := fld + ": \"" + strings.ReplaceAll(pl.text, "\"", "\\\"") + "\"\nsteps:\n  - name: a\n    command: \"true\"\n"
				out = append(out, c19Case{Field: fld + "(minimal)", Plant: pl.name, Text: t})
			}
		}
		multi := doc
		for _, p := range paths {
			if _, ok := yGet(multi, p).(string); ok && (yPathName(doc, p) != "schedule") && !strings.HasSuffix(yPathName(doc, p), "signalOnStop") && !strings.HasSuffix(yPathName(doc, p), "function") {
				multi = ySetLeaf(multi, p, plants[0].text)
			}
		}
		b, _ = yaml.Marshal(multi)
		out = append(out, c19Case{Field: "(every field at once)", Plant: "backtick", Text: string(b)})
	}
	return out
}

// evaluatedByLoad: fields whose plants dag.Load (start / dry-run path) must make live.
func evaluatedByLoad(field, plant string) bool {
	if plant == "dollar-paren" {
		return false
	}
	if plant == "quoted-backtick" || plant == "named-quoted-backtick" {
		return field == "params" || field == "params(minimal)" // quoting is parameter syntax
	}
	switch {
	case strings.HasPrefix(field, "env[]."), strings.HasPrefix(field, "env(map)"), field == "logDir", field == "logDir(minimal)":
		return plant != "env-assign" || field == "logDir" || field == "logDir(minimal)" || strings.HasPrefix(field, "env")
	case field == "params", field == "params(minimal)":
		return true
	}
	return false
}

func keyField(f string) string {
	if strings.HasPrefix(f, "random-doc-") {
		if i := strings.Index(f, ":"); i > 0 {
			return f[i+1:]
		}
	}
	return f
}

func c19Body(c *core.Ctx) {
	if c.Mode == "concurrent" {
		c19ConcBody(c)
		return
	}
	if gate.Sysgate() == "" {
		c.Inconclusive("sysgate not built")
		return
	}
	self, _ := os.Executable()
	cases := c19Cases("CANARYPATH", !c.Quick())
	for idx, cs := range cases {
		if !c.Mine(idx) {
			continue
		}
		c.Begin(idx, map[string]any{"field": cs.Field, "plant": cs.Plant})
		root, err := os.MkdirTemp(c.Scratch, "c19-")
		if err != nil {
			c.Inconclusive("mkdtemp")
			c.End(idx)
			continue
		}
		canary := filepath.Join(root, "canary")
		text := strings.ReplaceAll(cs.Text, "CANARYPATH", canary)
		_ = os.MkdirAll(filepath.Join(root, "dags"), 0755)
		_ = os.WriteFile(filepath.Join(root, "dags", "full.yaml"), []byte(text), 0644)
		run := func(control bool) (*gate.Result, []c19Phase) {
			sp := c19Spec{Root: root, Name: "full", Canary: canary, Control: control}
			jb, _ := json.Marshal(sp)
			sf := filepath.Join(root, fmt.Sprintf("spec-%v.json", control))
			_ = os.WriteFile(sf, jb, 0644)
			res, err := gate.Run(gate.Opts{LogExec: true, Env: []string{"TZ=UTC", "VERIF_C19_PRESET=set-by-the-server", "VERIF_C19_PRESET2=named-without-a-value-by-the-definition", "1=positional-one-of-an-earlier-load", "2=positional-two", "3=positional-three", "4=positional-four"}, Timeout: 90 * time.Second}, c.Scratch, self, "c19worker", sf)
			if err != nil || res == nil {
				return nil, nil
			}
			var phases []c19Phase
			for _, a := range res.Acks {
				if strings.HasPrefix(a, "PHASE ") {
					var ph c19Phase
					if json.Unmarshal([]byte(a[6:]), &ph) == nil {
						phases = append(phases, ph)
					}
				}
			}
			return res, phases
		}
		res, phases := run(false)
		if res == nil || res.TimedOut || len(phases) == 0 {
			out := ""
			if res != nil {
				out = clip(res.Stdout, 400)
			}
			c.Inconclusive(fmt.Sprintf("C19 worker failed for field %s/%s: %s", cs.Field, cs.Plant, out))
			os.RemoveAll(root)
			c.End(idx)
			continue
		}
		// processes created per phase, from the supervisor's log
		execs := map[string][]string{}
		cur := ""
		for _, l := range res.Seq {
			if strings.HasPrefix(l, "MARK ") {
				cur = l[5:]
			} else if strings.HasPrefix(l, "EXEC ") {
				f := strings.Fields(l)
				execs[cur] = append(execs[cur], f[len(f)-1])
			}
		}
		caseDesc := map[string]any{"field": cs.Field, "plant": cs.Plant, "text": clip(text, 2500)}
		for _, ph := range phases {
			c.Eval(1)
			c.Count("obligations", 3)
			c.SetAdd("entry_points", ph.Entry)
			if ph.Panic != "" {
				c.Count("entry_panics", 1) // C13's business; recorded only
			}
			if ph.Canary {
				c.Violate(idx, "exec|"+ph.Entry+"|"+keyField(cs.Field), fmt.Sprintf("%s executed the command planted in field %s (%s): the canary file was created", ph.Entry, cs.Field, cs.Plant), caseDesc)
			}
			if ex := execs[ph.Entry]; len(ex) > 0 && !ph.Canary {
				c.Violate(idx, "process|"+ph.Entry+"|"+keyField(cs.Field), fmt.Sprintf("%s created process(es) %v while loading a definition with a plant in field %s (%s)", ph.Entry, ex, cs.Field, cs.Plant), caseDesc)
			}
			if len(ph.EnvDiff) > 0 {
				c.Violate(idx, "env|"+ph.Entry+"|"+strings.Join(ph.EnvDiff, ","), fmt.Sprintf("%s changed the environment of the loading process: %v (plant in field %s)", ph.Entry, ph.EnvDiff, cs.Field), caseDesc)
			}
		}
		c.Sig(cs.Field, cs.Plant)
		// positive control: the evaluating loader must make the plant live
		if evaluatedByLoad(cs.Field, cs.Plant) {
			_, cph := run(true)
			live := false
			for _, ph := range cph {
				if ph.Canary {
					live = true
				}
			}
			if live {
				c.Count("control_live", 1)
			} else {
				c.Count("control_silent", 1)
				c.Inconclusive(fmt.Sprintf("positive control silent: dag.Load did not execute the plant in %s (%s); phases=%+v", cs.Field, cs.Plant, cph))
			}
		} else if cs.Plant == "plain-full-document" {
			_, cph := run(true)
			for _, ph := range cph {
				has := func(v string) bool {
					for _, d := range ph.EnvDiff {
						if d == "+"+v || d == "~"+v {
							return true
						}
					}
					return false
				}
				if has("VERIF_C19_E1") && has("VERIF_C19_P") && has("1") {
					c.Count("control_env_live", 1)
				} else {
					c.Inconclusive(fmt.Sprintf("positive control silent: dag.Load did not export the variables of the plain document: %v err=%s", ph.EnvDiff, ph.Err))
				}
			}
		}
		if idx%17 == 0 {
			c.Sample(map[string]any{"field": cs.Field, "plant": cs.Plant, "phases": len(phases), "text": clip(text, 600)})
		}
		os.RemoveAll(root)
		c.End(idx)
	}
}

func init() {
	core.Register(&core.Prop{ID: "C19", Level: "exploration", Body: c19Body, CrashKey: crashKeyGeneric, MinDistinct: 40,
		Passes: func(tier string) []core.Pass {
			return []core.Pass{{Name: "main", Mode: "plant", Shards: 16, Timeout: 40 * time.Minute},
				{Name: "concurrent", Mode: "concurrent", Shards: 8, Timeout: 40 * time.Minute}}
		},
		Exhaustive:  func(tier string) bool { return true },
		Rule:        "A full definition containing every string-valued field of the grammar (name, group, description, tags, schedule, logDir, env list and map incl. names already set in the process and one named without a value, params, DAG and step preconditions, four handlers, smtp, error/info mail, functions, step description/dir/command (string and list)/script/stdout/stderr/output/depends/executor type and nested config/call args/sub-workflow and its params/step env/signalOnStop) is enumerated leaf by leaf: each string leaf in turn is replaced by a plant (`touch canary`, text with an embedded backtick command, $(touch canary), NAME=`touch canary`; plus 24 (600) randomly generated valid definitions with a plant at a random string leaf; thorough: minimal documents, every field at once). For each document one worker process, traced by the ptrace supervisor with execve logging, runs 30 non-executing entry points in sequence, each bracketed by a phase mark: dag.LoadYAML / LoadMetadata / LoadWithoutEval, DAGStore.GetMetadata / GetDetails / GetSpec / List / ListPagination / Grep / Find / TagList / UpdateSpec, client.GetStatus / GetAllStatus / GetDAGSpec / UpdateDAG / Grep, the assembled web API (GET /dags, paginated list, GET /dags/{id} for five tabs, /search, /tags, POST save) and the scheduler daemon (directory scan, watcher reload, one tick). After every phase: canary file exists (command executed), os.Environ() differs from before the phase, the supervisor logged an execve of a descendant between the phase marks (field-agnostic). Positive control: for fields that starting a DAG evaluates (env values, logDir, a parameter that is a backtick command) dag.Load on the same document must create the canary, and on the plain document must export the env/params variables — otherwise the run is inconclusive. Concurrent pass: 64 (600) cases in which 4 goroutines make 300 (800) non-executing calls each (LoadYAML, LoadWithoutEval, LoadMetadata, client.GetStatus, DAGStore.Find, GET /dags and /dags/{id}) on a definition with a command substitution planted in a step / handler command or sub-workflow parameters, while 3 goroutines of the same process run the real step scheduler on benign command steps (whose node set-up evaluates substitutions of their own); the canary must not appear. exhaustive=true refers to the enumeration of string leaves of the full document x entry points. Non-trivial/distinct = (field, plant).",
		Assumptions: []string{"the field grammar is the full document of c19.go plus the process-creation monitor, which does not depend on knowing the fields", "base configuration files are not planted"}})
}
