package props

// C12, fault pass: the device holding the step LOG fails (ENOSPC / EIO on its write or fsync)
// while the stdout: and stderr: files live on a healthy one.  A worker process runs the real
// scheduler with the real command executor on one emitter step under the ptrace supervisor,
// which makes the k-th watched system call under the log directory fail, for every k.  Output
// volumes stay below one buffer, so that everything is written at teardown: whatever happens to
// the log, the redirect files must still hold every byte of their streams.

import (
	"context"
	"fmt"
	"os"
	"path/filepath"
	"strconv"
	"syscall"
	"time"

	"github.com/ErdemOzgen/blackdagger/internal/dag"
	dagsched "github.com/ErdemOzgen/blackdagger/internal/dag/scheduler"
	"github.com/ErdemOzgen/blackdagger/verifh/core"
	"github.com/ErdemOzgen/blackdagger/verifh/gate"
)

// c12faultworker <root> <outN> <errN> <cfg>: cfg bit 0 = stderr file, bit 1 = output variable
func c12FaultWorker(args []string) int {
	if len(args) < 4 {
		return 9
	}
	root := args[0]
	outN, _ := strconv.Atoi(args[1])
	errN, _ := strconv.Atoi(args[2])
	cfg, _ := strconv.Atoi(args[3])
	self, _ := os.Executable()
	logDir := filepath.Join(root, "logs")
	files := filepath.Join(root, "files")
	_ = os.MkdirAll(logDir, 0755)
	_ = os.MkdirAll(files, 0755)
	st := dag.Step{Name: "main", Dir: root, ExecutorConfig: dag.ExecutorConfig{Config: map[string]any{}}}
	st.CmdWithArgs = fmt.Sprintf("%s emit %d %d 0 0 %s", self, outN, errN, filepath.Join(root, "main.attempt"))
	st.Command = self
	st.Stdout = filepath.Join(files, "main.stdout")
	if cfg&1 != 0 {
		st.Stderr = filepath.Join(files, "main.stderr")
	}
	if cfg&2 != 0 {
		st.Output = "VERIF_C12F_OUT"
	}
	g, err := dagsched.NewExecutionGraph(c13Logger, st)
	if err != nil {
		return 8
	}
	sc := dagsched.New(&dagsched.Config{LogDir: logDir, Logger: c13Logger, ReqID: "c12fault0"})
	sc.VerifSetPause(time.Millisecond)
	d := &dag.DAG{Name: "c12f", Location: filepath.Join(root, "c12f.yaml")}
	ctx := dag.NewContext(context.Background(), d, nil, "c12fault0", filepath.Join(root, "sched.log"))
	if f, err := os.Open("/verif-marker-begin"); err == nil {
		f.Close()
	}
	_ = sc.Schedule(ctx, g, nil)
	return 0
}

func init() { core.Sub["c12faultworker"] = c12FaultWorker }

func c12FaultBody(c *core.Ctx) {
	if gate.Sysgate() == "" {
		c.Inconclusive("sysgate not built")
		return
	}
	self, _ := os.Executable()
	sizes := [][2]int{{1, 0}, {100, 40}, {3000, 900}} // together below one 4096-byte buffer: the log is written at teardown only
	errnos := []int{int(syscall.ENOSPC), int(syscall.EIO)}
	if c.Quick() {
		errnos = errnos[:1]
	}
	idx := 0
	for cfg := 0; cfg < 4; cfg++ {
		for _, sz := range sizes {
			run := func(failAt, errno int) (*gate.Result, string) {
				root, err := os.MkdirTemp(c.Scratch, "c12f-")
				if err != nil {
					return nil, ""
				}
				res, _ := gate.Run(gate.Opts{Watch: []string{filepath.Join(root, "logs")}, FromMarker: true, FailAt: failAt, Errno: errno, Env: []string{"TZ=UTC"}, Timeout: 60 * time.Second},
					c.Scratch, self, "c12faultworker", root, fmt.Sprint(sz[0]), fmt.Sprint(sz[1]), fmt.Sprint(cfg))
				return res, root
			}
			res, root := run(0, 0)
			os.RemoveAll(root)
			if res == nil || res.TimedOut || res.ExitCode != 0 {
				c.Inconclusive("c12 fault: counting run failed")
				return
			}
			N := len(res.Events)
			for k := 1; k <= N; k++ {
				for _, errno := range errnos {
					if !c.Mine(idx) {
						idx++
						continue
					}
					ev := res.Events[k-1]
					desc := map[string]any{"stdoutBytes": sz[0], "stderrBytes": sz[1], "stderrFile": cfg&1 != 0, "outputVar": cfg&2 != 0, "failed_call": ev, "errno": syscall.Errno(errno).Error()}
					c.Begin(idx, desc)
					fres, froot := run(k, errno)
					if fres == nil || fres.TimedOut {
						c.Inconclusive("c12 fault: run with an injected error did not finish")
					} else {
						c.Eval(1)
						if _, err := os.Stat(filepath.Join(froot, "main.attempt")); err != nil {
							// the log could not even be opened: the step was not run, it wrote nothing
							c.Count("steps_not_run_because_the_log_could_not_be_opened", 1)
							os.RemoveAll(froot)
							c.End(idx)
							idx++
							continue
						}
						c.Count("obligations", 1)
						c.Count("injected_log_device_errors", 1)
						c.SetAdd("failed_calls", ev.Label())
						ob, _ := os.ReadFile(filepath.Join(froot, "files", "main.stdout"))
						if want := emitPattern(0, 1, sz[0]); string(project(ob, 0)) != string(want) {
							c.Violate(idx, "stdout-file-lost-on-log-error|"+ev.Label(), fmt.Sprintf("the log's %s failed with %s; the stdout: file, on a healthy device, holds %d of the %d bytes the step wrote to stdout", ev.Name, syscall.Errno(errno).Error(), len(project(ob, 0)), len(want)), desc)
						}
						if cfg&1 != 0 {
							c.Count("obligations", 1)
							eb, _ := os.ReadFile(filepath.Join(froot, "files", "main.stderr"))
							if want := emitPattern(1, 1, sz[1]); string(project(eb, 1)) != string(want) {
								c.Violate(idx, "stderr-file-lost-on-log-error|"+ev.Label(), fmt.Sprintf("the log's %s failed with %s; the stderr: file, on a healthy device, holds %d of the %d bytes the step wrote to stderr", ev.Name, syscall.Errno(errno).Error(), len(project(eb, 1)), len(want)), desc)
							}
						}
						c.Sig("c12fault", cfg, sz, k, errno)
					}
					os.RemoveAll(froot)
					c.End(idx)
					idx++
				}
			}
		}
	}
}
