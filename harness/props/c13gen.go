package props

// Grammar of valid DAG definitions + structural mutator (engine D, shared by
// C13 and C19).  Documents are yaml.MapSlice trees so that field order,
// duplicate keys and non-string keys can be produced deliberately.

import (
	"fmt"
	"math/rand"
	"strings"

	"gopkg.in/yaml.v2"
)

type ym = yaml.MapSlice

func kv(k any, v any) yaml.MapItem { return yaml.MapItem{Key: k, Value: v} }

var (
	safeCmds     = []string{"true", "echo hello", "echo $1 $X", "false", "sh -c 'exit 1'", "verif-no-such-binary arg", "echo `echo sub`", "echo \"a b\" c"}
	safeCmdLists = [][]any{{"echo", "a", "b"}, {"true"}, {"echo", 1, 2.5, true}, {"sh", "-c", "exit 0"}}
	safeEnvVals  = []string{"plain", "with space", "${HOME}", "$VERIF_UNSET_VAR", "`echo evaluated`", "a=b", "", "1", "üñí", "x\"y", "'q'"}
	safeParams   = []string{"a b", "x=1 y=2", `p="hello world"`, "`echo fromcmd`", `n="\"q\""`, "", "one", `k="v w" z`, "${HOME}"}
	safeExpected = []string{"1", "", "re:^[0-9]+$", "re:.*", "hello", "re:a|b"}
	safeConds    = []string{"1", "`echo 1`", "$VERIF_UNSET_VAR", "${HOME}", "x"}
	cronOK       = []string{"* * * * *", "*/5 * * * *", "0 1 * * *", "0 0 1 1 *", "15 3 * * mon-fri", "0 0 30 2 *"}
	signalsOK    = []string{"SIGTERM", "SIGINT", "SIGKILL", "SIGHUP", "SIGUSR1"}
	signalsOdd   = []string{"sigterm", "TERM", " SIGTERM", "SIGTERM ", "Sigint", "term", "15", "9", "SIG", "sigkill\n"}
)

func pickStr(r *rand.Rand, xs []string) string { return xs[r.Intn(len(xs))] }

func genCond(r *rand.Rand) ym {
	return ym{kv("condition", pickStr(r, safeConds)), kv("expected", pickStr(r, safeExpected))}
}

func genStep(r *rand.Rand, name string, prev []string, fns []string) ym {
	s := ym{kv("name", name)}
	switch r.Intn(12) {
	case 0:
		s = append(s, kv("command", safeCmdLists[r.Intn(len(safeCmdLists))]))
	case 1:
		s = append(s, kv("command", "sh"), kv("script", "echo from script\nexit 0\n"))
	case 2:
		if len(fns) > 0 {
			s = append(s, kv("call", ym{kv("function", fns[0]), kv("args", ym{kv("a", 1), kv("b", "two")})}))
		} else {
			s = append(s, kv("command", pickStr(r, safeCmds)))
		}
	case 3:
		s = append(s, kv("run", "sub_workflow"), kv("params", "x=1"))
	case 4:
		switch r.Intn(5) {
		case 0:
			s = append(s, kv("executor", "command"), kv("command", pickStr(r, safeCmds)))
		case 1:
			s = append(s, kv("executor", ym{kv("type", "http"), kv("config", ym{kv("timeout", 1), kv("headers", ym{kv("A", "b")}), kv("silent", true), kv("query", ym{kv("k", "v")})})}), kv("command", "GET http://127.0.0.1:1/"))
		case 2:
			s = append(s, kv("executor", ym{kv("type", "jq"), kv("config", ym{kv("raw", true)})}), kv("command", "."), kv("script", "{\"a\": 1}"))
		case 3:
			s = append(s, kv("executor", ym{kv("type", "mail"), kv("config", ym{kv("to", "a@b.c"), kv("from", "d@e.f"), kv("subject", "s"), kv("message", "m")})}))
		default:
			s = append(s, kv("executor", ym{kv("type", "command"), kv("config", ym{kv("nested", ym{kv("deep", ym{kv("er", 1)})}), kv("list", []any{1, "a", ym{kv("k", "v")}})})}), kv("command", "true"))
		}
	default:
		s = append(s, kv("command", pickStr(r, safeCmds)))
	}
	if r.Intn(3) == 0 {
		s = append(s, kv("description", "step "+name))
	}
	if r.Intn(6) == 0 {
		s = append(s, kv("dir", "/tmp"))
	}
	if r.Intn(6) == 0 {
		s = append(s, kv("stdout", "${VERIF_SHARD_SCRATCH}/out-"+name+".txt"))
	}
	if r.Intn(8) == 0 {
		s = append(s, kv("stderr", "${VERIF_SHARD_SCRATCH}/err-"+name+".txt"))
	}
	if r.Intn(5) == 0 {
		s = append(s, kv("output", "OUT_"+strings.ToUpper(name)))
	}
	if len(prev) > 0 && r.Intn(2) == 0 {
		var deps []any
		for _, p := range prev {
			if r.Intn(2) == 0 {
				deps = append(deps, p)
			}
		}
		if len(deps) > 0 {
			s = append(s, kv("depends", deps))
		}
	}
	if r.Intn(5) == 0 {
		s = append(s, kv("continueOn", ym{kv("failure", r.Intn(2) == 0), kv("skipped", r.Intn(2) == 0)}))
	}
	if r.Intn(6) == 0 {
		s = append(s, kv("retryPolicy", ym{kv("limit", r.Intn(3)), kv("intervalSec", 0)}))
	}
	if r.Intn(12) == 0 {
		s = append(s, kv("repeatPolicy", ym{kv("repeat", false), kv("intervalSec", 1)}))
	}
	if r.Intn(8) == 0 {
		s = append(s, kv("mailOnError", r.Intn(2) == 0))
	}
	if r.Intn(5) == 0 {
		s = append(s, kv("preconditions", []any{genCond(r)}))
	}
	if r.Intn(6) == 0 {
		s = append(s, kv("signalOnStop", pickStr(r, signalsOK)))
	}
	return s
}

// genDoc draws a valid definition that uses a random subset of the documented fields.
func genDoc(r *rand.Rand) ym {
	var d ym
	if r.Intn(3) == 0 {
		d = append(d, kv("name", pickStr(r, []string{"my dag", "x", "üñí", "a.b"})))
	}
	if r.Intn(5) == 0 {
		d = append(d, kv("group", "g1"))
	}
	if r.Intn(4) == 0 {
		d = append(d, kv("description", "generated"))
	}
	switch r.Intn(6) {
	case 0:
		d = append(d, kv("tags", "Daily, prod"))
	case 1:
		d = append(d, kv("tags", []any{"A", "b"}))
	}
	switch r.Intn(6) {
	case 0:
		d = append(d, kv("schedule", pickStr(r, cronOK)))
	case 1:
		d = append(d, kv("schedule", []any{pickStr(r, cronOK), pickStr(r, cronOK)}))
	case 2:
		m := ym{}
		if r.Intn(2) == 0 {
			m = append(m, kv("start", pickStr(r, cronOK)))
		}
		if r.Intn(2) == 0 {
			m = append(m, kv("stop", []any{pickStr(r, cronOK)}))
		}
		if r.Intn(2) == 0 || len(m) == 0 {
			m = append(m, kv("restart", pickStr(r, cronOK)))
		}
		d = append(d, kv("schedule", m))
	}
	switch r.Intn(5) {
	case 0:
		d = append(d, kv("env", []any{ym{kv("X", pickStr(r, safeEnvVals))}, ym{kv("Y", pickStr(r, safeEnvVals))}}))
	case 1:
		d = append(d, kv("env", ym{kv("X", pickStr(r, safeEnvVals)), kv("N", 5)}))
	}
	if r.Intn(3) == 0 {
		d = append(d, kv("params", pickStr(r, safeParams)))
	}
	if r.Intn(6) == 0 {
		d = append(d, kv("logDir", "${VERIF_SHARD_SCRATCH}/dlogs"))
	}
	var fns []string
	if r.Intn(6) == 0 {
		fns = []string{"f1"}
		d = append(d, kv("functions", []any{ym{kv("name", "f1"), kv("params", "a b"), kv("command", "echo $a $b")}}))
	}
	if r.Intn(4) == 0 {
		h := ym{}
		for _, t := range []string{"exit", "success", "failure", "cancel"} {
			if r.Intn(2) == 0 {
				h = append(h, kv(t, ym{kv("command", pickStr(r, safeCmds))}))
			}
		}
		d = append(d, kv("handlerOn", h))
	}
	if r.Intn(8) == 0 {
		d = append(d, kv("smtp", ym{kv("host", "127.0.0.1"), kv("port", "1"), kv("username", "${HOME}"), kv("password", "p")}))
	}
	if r.Intn(8) == 0 {
		d = append(d, kv("mailOn", ym{kv("failure", false), kv("success", false)}))
	}
	if r.Intn(10) == 0 {
		d = append(d, kv("errorMail", ym{kv("from", "a@b"), kv("to", "c@d"), kv("prefix", "[E]"), kv("attachLogs", false)}))
	}
	if r.Intn(10) == 0 {
		d = append(d, kv("infoMail", ym{kv("from", "a@b"), kv("to", "c@d"), kv("prefix", "[I]")}))
	}
	for _, f := range []string{"timeoutSec", "delaySec", "restartWaitSec", "histRetentionDays", "maxActiveRuns", "maxCleanUpTimeSec"} {
		if r.Intn(8) == 0 {
			v := r.Intn(3)
			if f == "timeoutSec" {
				v = 0
			}
			d = append(d, kv(f, v))
		}
	}
	if r.Intn(6) == 0 {
		d = append(d, kv("preconditions", []any{genCond(r)}))
	}
	n := 1 + r.Intn(4)
	var steps []any
	var names []string
	for i := 0; i < n; i++ {
		nm := fmt.Sprintf("s%d", i+1)
		steps = append(steps, genStep(r, nm, names, fns))
		names = append(names, nm)
	}
	d = append(d, kv("steps", steps))
	r.Shuffle(len(d), func(i, j int) { d[i], d[j] = d[j], d[i] })
	return d
}

// genExecDoc draws a valid definition that the agent can execute quickly and
// harmlessly: command steps only (no mail / http / sub-workflow / repeat).
// genCommandLine: a harmless command line built from the shell-like token kinds the run-time
// splitter (shellwords with command substitution) has to cope with.
func genCommandLine(r *rand.Rand) string {
	toks := []string{"a", "b c", "\"a b\"", "'c d'", "`echo x`", "$(echo y)", "$X", "${X}", "\\", "\"", "'", "`", "$(", ")", "|", ";", "&&", ">", "a\\ b", "\"\"", "''", "\"`echo q`\"", "$(echo \"p q\")", "#", "=", "--flag=v", "\t"}
	cmd := pickStr(r, []string{"echo", "true", "echo", "printf"})
	n := 1 + r.Intn(5)
	for i := 0; i < n; i++ {
		cmd += " " + toks[r.Intn(len(toks))]
	}
	return cmd
}

func genExecDoc(r *rand.Rand) ym {
	var d ym
	if r.Intn(3) == 0 {
		d = append(d, kv("params", pickStr(r, []string{"a b", "x=1", `p="hello world"`, "one"})))
	}
	if r.Intn(3) == 0 {
		d = append(d, kv("env", []any{ym{kv("X", pickStr(r, []string{"plain", "with space", "${HOME}", "1"}))}}))
	}
	if r.Intn(4) == 0 {
		d = append(d, kv("preconditions", []any{ym{kv("condition", pickStr(r, []string{"1", "`echo 1`"})), kv("expected", pickStr(r, []string{"1", "re:^1$", "2"}))}}))
	}
	if r.Intn(2) == 0 {
		h := ym{}
		for _, t := range []string{"exit", "success", "failure", "cancel"} {
			if r.Intn(2) == 0 {
				h = append(h, kv(t, ym{kv("command", pickStr(r, []string{"true", "echo handler", "false"}))}))
			}
		}
		d = append(d, kv("handlerOn", h))
	}
	if r.Intn(4) == 0 {
		d = append(d, kv("maxActiveRuns", 1+r.Intn(2)))
	}
	if r.Intn(5) == 0 {
		// notifications switched on without any mail section (no SMTP host: sending fails at once)
		d = append(d, kv("mailOn", ym{kv("failure", r.Intn(2) == 0), kv("success", r.Intn(2) == 0)}))
	}
	n := 1 + r.Intn(4)
	var steps []any
	var names []string
	for i := 0; i < n; i++ {
		nm := fmt.Sprintf("s%d", i+1)
		s := ym{kv("name", nm)}
		switch r.Intn(6) {
		case 0:
			s = append(s, kv("command", []any{"echo", "a", 1, true}))
		case 1:
			s = append(s, kv("command", "sh"), kv("script", "echo from script\nexit 0\n"))
		case 2:
			s = append(s, kv("command", pickStr(r, []string{"false", "sh -c 'exit 1'", "verif-no-such-binary x"})))
		case 3:
			s = append(s, kv("command", genCommandLine(r)))
		default:
			s = append(s, kv("command", pickStr(r, []string{"true", "echo hello", "echo $1 $X", "echo \"a b\" c"})))
		}
		if len(names) > 0 && r.Intn(2) == 0 {
			s = append(s, kv("depends", []any{names[r.Intn(len(names))]}))
		}
		if r.Intn(4) == 0 {
			s = append(s, kv("continueOn", ym{kv("failure", true), kv("skipped", r.Intn(2) == 0)}))
		}
		if r.Intn(5) == 0 {
			s = append(s, kv("retryPolicy", ym{kv("limit", 1+r.Intn(2)), kv("intervalSec", 0)}))
		}
		if r.Intn(5) == 0 {
			s = append(s, kv("output", "OUT_"+strings.ToUpper(nm)))
		}
		if r.Intn(9) == 0 {
			s = append(s, kv("mailOnError", true))
		}
		if r.Intn(9) == 0 {
			s = append(s, kv("signalOnStop", pickStr(r, append(append([]string{}, signalsOK...), signalsOdd...))))
		}
		if r.Intn(6) == 0 {
			s = append(s, kv("stdout", "${VERIF_SHARD_SCRATCH}/out-"+nm+".txt"))
		}
		if r.Intn(6) == 0 {
			s = append(s, kv("preconditions", []any{ym{kv("condition", "$VERIF_UNSET_VAR"), kv("expected", pickStr(r, []string{"", "x", "re:["}))}}))
		}
		if r.Intn(8) == 0 {
			s = append(s, kv("executor", ym{kv("type", "command"), kv("config", ym{kv("list", []any{1, ym{kv("k", "v")}}), kv("deep", ym{kv("a", ym{kv("b", 1)})})})}))
		}
		steps = append(steps, s)
		names = append(names, nm)
	}
	d = append(d, kv("steps", steps))
	r.Shuffle(len(d), func(i, j int) { d[i], d[j] = d[j], d[i] })
	return d
}

// ---- mutation ------------------------------------------------------------------

var hostileStrings = []string{"", " ", "re:[", "re:(", "re:*", "61 * * * *", "* * *", "not a cron", "SIGFOO", "0", "`", "``", "${", "$(", "$", "y", "n", "~", "null", ".nan", "!!binary abc", "*alias", "&anc x", ": ", "- ", "{", "[", "\t", "a\nb", "\\", "\"", "'", "%", "=", "==", "a=", "=b", "\"unterminated", "0x1F", "1e309", "-", "--", "#", "@every 1m", "CRON_TZ=UTC * * * * *", "TZ=UTC", "CRON_TZ=UTC", "TZ=", "CRON_TZ= * * * * *", "TZ=Nowhere/Land 1 2 3 4 5", "@daily", "@reboot", "@", "üñí€😀", strings.Repeat("A", 70000), strings.Repeat("ab ", 3000)}

func hostileValue(r *rand.Rand, depth int) any {
	switch r.Intn(16) {
	case 0:
		return nil
	case 1:
		return pickStr(r, hostileStrings)
	case 2:
		return r.Intn(5) - 2
	case 3:
		return []float64{0.5, -1e308, 1e-320}[r.Intn(3)]
	case 4:
		return r.Intn(2) == 0
	case 5:
		return []any{}
	case 6:
		return []any{nil}
	case 7:
		return []any{pickStr(r, hostileStrings), 1, nil}
	case 8:
		return ym{}
	case 9:
		return ym{kv(1, 2)}
	case 10:
		return ym{kv(true, "x"), kv(nil, "y")}
	case 11:
		return ym{kv("k", []any{ym{kv("b", "c")}})}
	case 12:
		if depth < 3 {
			return []any{hostileValue(r, depth+1), hostileValue(r, depth+1)}
		}
		return "x"
	case 13:
		if depth < 3 {
			return ym{kv(pickStr(r, []string{"type", "config", "start", "name", "command", "foo"}), hostileValue(r, depth+1))}
		}
		return "x"
	case 14:
		return ym{kv([]any{"a"}, "b")}
	default:
		return pickStr(r, []string{"true", "1", "x"})
	}
}

type yPath []any // string key index (int into MapSlice) or list index

// yWalk collects the paths of all nodes (values) of the tree.
func yWalk(v any, cur yPath, out *[]yPath) {
	switch t := v.(type) {
	case ym:
		for i := range t {
			p := append(append(yPath{}, cur...), i)
			*out = append(*out, p)
			yWalk(t[i].Value, p, out)
		}
	case []any:
		for i := range t {
			p := append(append(yPath{}, cur...), i)
			*out = append(*out, p)
			yWalk(t[i], p, out)
		}
	}
}

func yGet(root any, p yPath) any {
	v := root
	for _, i := range p {
		switch t := v.(type) {
		case ym:
			v = t[i.(int)].Value
		case []any:
			v = t[i.(int)]
		}
	}
	return v
}

// ySet returns a copy of root with the node at p replaced by f(old); f may
// also edit the parent container through the returned op.
func yEdit(root any, p yPath, f func(parent any, idx int) any) any {
	if len(p) == 1 {
		return f(root, p[0].(int))
	}
	switch t := root.(type) {
	case ym:
		c := append(ym{}, t...)
		c[p[0].(int)].Value = yEdit(t[p[0].(int)].Value, p[1:], f)
		return c
	case []any:
		c := append([]any{}, t...)
		c[p[0].(int)] = yEdit(t[p[0].(int)], p[1:], f)
		return c
	}
	return root
}

func yKeyName(root any, p yPath) string {
	v := root
	name := ""
	for _, i := range p {
		switch t := v.(type) {
		case ym:
			name = fmt.Sprint(t[i.(int)].Key)
			v = t[i.(int)].Value
		case []any:
			name += "[]"
			v = t[i.(int)]
		}
	}
	return name
}

// mutateDoc applies one structural mutation and describes it.
func mutateDoc(r *rand.Rand, doc ym) (ym, string) {
	var paths []yPath
	yWalk(doc, nil, &paths)
	if len(paths) == 0 {
		return doc, "none"
	}
	p := paths[r.Intn(len(paths))]
	field := yKeyName(doc, p)
	op := r.Intn(9)
	desc := ""
	out := yEdit(doc, p, func(parent any, idx int) any {
		switch t := parent.(type) {
		case ym:
			c := append(ym{}, t...)
			switch op {
			case 0, 1, 2:
				c[idx].Value = hostileValue(r, 0)
				desc = "confuse " + field
			case 3:
				c = append(c[:idx], c[idx+1:]...)
				desc = "delete " + field
			case 4:
				c = append(c, c[idx])
				desc = "duplicate " + field
			case 5:
				c[idx].Value = []any{c[idx].Value}
				desc = "wrap-in-list " + field
			case 6:
				c[idx].Value = ym{kv(pickStr(r, []string{"value", "type", "start", "x"}), c[idx].Value)}
				desc = "wrap-in-map " + field
			case 7:
				c = append(c, kv(pickStr(r, []string{"unknownKey", "Name", "STEPS", "command ", "", "1"}), hostileValue(r, 0)))
				desc = "unknown-key-next-to " + field
			default:
				if s, ok := c[idx].Value.(string); ok {
					c[idx].Value = s + pickStr(r, hostileStrings)
					desc = "append-hostile " + field
				} else {
					c[idx].Key = hostileValue(r, 2)
					desc = "confuse-key " + field
				}
			}
			return c
		case []any:
			c := append([]any{}, t...)
			switch op {
			case 0, 1, 2:
				c[idx] = hostileValue(r, 0)
				desc = "confuse-element " + field
			case 3:
				c = append(c[:idx], c[idx+1:]...)
				desc = "delete-element " + field
			case 4:
				c = append(c, c[idx])
				desc = "duplicate-element " + field
			case 5:
				c = append(c, nil)
				desc = "null-element " + field
			case 6:
				c[idx] = []any{c[idx]}
				desc = "nest-element " + field
			default:
				c = append([]any{nil}, c...)
				desc = "null-first-element " + field
			}
			return c
		}
		return parent
	})
	if o, ok := out.(ym); ok {
		return o, desc
	}
	return doc, "none"
}

func mutateBytes(r *rand.Rand, b []byte) []byte {
	b = append([]byte{}, b...)
	if len(b) == 0 {
		return []byte(":")
	}
	n := 1 + r.Intn(4)
	for i := 0; i < n; i++ {
		pos := r.Intn(len(b))
		switch r.Intn(6) {
		case 0:
			b[pos] = byte(r.Intn(256))
		case 1:
			b = append(b[:pos], b[pos+1:]...)
			if len(b) == 0 {
				return []byte("-")
			}
		case 2:
			ins := []string{":", "- ", "[", "{", "*", "&a ", "!", "\t", "|\n", ">", "? ", "\n", "  ", "]", "}", "\"", "'", "#", "---\n", "...\n", "<<: ", "%"}
			s := ins[r.Intn(len(ins))]
			b = append(b[:pos], append([]byte(s), b[pos:]...)...)
		case 3: // duplicate a line
			lines := strings.Split(string(b), "\n")
			k := r.Intn(len(lines))
			lines = append(lines[:k], append([]string{lines[k]}, lines[k:]...)...)
			b = []byte(strings.Join(lines, "\n"))
		case 4: // change indentation of a line
			lines := strings.Split(string(b), "\n")
			k := r.Intn(len(lines))
			if r.Intn(2) == 0 {
				lines[k] = "  " + lines[k]
			} else {
				lines[k] = strings.TrimPrefix(lines[k], "  ")
			}
			b = []byte(strings.Join(lines, "\n"))
		default: // truncate
			b = b[:pos]
			if len(b) == 0 {
				return []byte("s")
			}
		}
	}
	return b
}

// handWritten is a corpus of documents aimed at the hand-written type switches.
var handWritten = []string{
	"schedule:\n  foo: \"* * * * *\"\nsteps:\n  - name: a\n    command: \"true\"\n",
	"schedule:\n  start: {a: b}\nsteps:\n  - name: a\n    command: \"true\"\n",
	"schedule:\n  start: ~\nsteps:\n  - name: a\n    command: \"true\"\n",
	"schedule:\n  1: \"* * * * *\"\nsteps:\n  - name: a\n    command: \"true\"\n",
	"schedule: [~]\nsteps:\n  - name: a\n    command: \"true\"\n",
	"steps:\n  - ~\n",
	"steps: [~, ~]\n",
	"functions: [~]\nsteps:\n  - name: a\n    command: \"true\"\n",
	"preconditions: [~]\nsteps:\n  - name: a\n    command: \"true\"\n",
	"steps:\n  - name: a\n    command: \"true\"\n    preconditions: [~]\n",
	"smtp: {1: 2}\nsteps:\n  - name: a\n    command: \"true\"\n",
	"handlerOn: {exit: ~}\nsteps:\n  - name: a\n    command: \"true\"\n",
	"handlerOn: {exit: {command: \"true\"}, success: {name: x}}\nsteps:\n  - name: a\n    command: \"true\"\n",
	"steps:\n  - name: a\n    command: []\n",
	"steps:\n  - name: a\n    command: \"  \"\n",
	"steps:\n  - name: a\n    command: [\"\"]\n",
	"steps:\n  - name: a\n    command: [~]\n",
	"steps:\n  - name: a\n    executor: \"\"\n",
	"steps:\n  - name: a\n    executor: {}\n",
	"steps:\n  - name: a\n    executor: {type: \"\"}\n",
	"steps:\n  - name: a\n    executor: {config: {a: 1}}\n",
	"steps:\n  - name: a\n    executor:\n      type: command\n      config:\n        a: [{b: c}]\n    command: \"true\"\n",
	"steps:\n  - name: a\n    executor:\n      type: command\n      config:\n        a: {b: {1: c}}\n    command: \"true\"\n",
	"steps:\n  - name: a\n    executor:\n      type: command\n      config:\n        f: .nan\n    command: \"true\"\n",
	"steps:\n  - name: a\n    executor:\n      type: command\n      config:\n        f: .inf\n    command: \"true\"\n",
	"steps:\n  - name: a\n    command: \"true\"\n    preconditions:\n      - condition: \"1\"\n        expected: \"re:[\"\n",
	"preconditions:\n  - condition: \"1\"\n    expected: \"re:[\"\nsteps:\n  - name: a\n    command: \"true\"\n",
	"steps:\n  - name: a\n    command: \"true\"\n    signalOnStop: \"\"\n",
	"steps:\n  - name: a\n    command: \"true\"\n    signalOnStop: \"SIGFOO\"\n",
	"steps:\n  - name: a\n    call: {function: nope}\n",
	"functions:\n  - name: f\n    params: \"\"\n    command: \"echo\"\nsteps:\n  - name: a\n    call: {function: f}\n",
	"functions:\n  - name: f\n    params: \"a\"\n    command: \"echo $a\"\nsteps:\n  - name: a\n    call: {function: f, args: {a: [1]}}\n",
	"functions:\n  - name: f\n    params: \"a\"\n    command: \"$a\"\nsteps:\n  - name: a\n    call: {function: f, args: {a: 1}}\n",
	"steps:\n  - name: a\n    run: \"\"\n",
	"steps:\n  - name: \"\"\n    command: \"true\"\n",
	"steps:\n  - command: \"true\"\n",
	"env: [~]\nsteps:\n  - name: a\n    command: \"true\"\n",
	"env: [[a, b]]\nsteps:\n  - name: a\n    command: \"true\"\n",
	"env: {1: 2}\nsteps:\n  - name: a\n    command: \"true\"\n",
	"env: x\nsteps:\n  - name: a\n    command: \"true\"\n",
	"tags: {a: [1]}\nsteps:\n  - name: a\n    command: \"true\"\n",
	"tags: [~, 1, [x]]\nsteps:\n  - name: a\n    command: \"true\"\n",
	"params: \"`\"\nsteps:\n  - name: a\n    command: \"true\"\n",
	"params: \"\\\"\"\nsteps:\n  - name: a\n    command: \"true\"\n",
	"a: &a [*a]\n",
	"a: &a\n  b: *a\n",
	"<<: {steps: 1}\n",
	"? [a, b]\n: c\n",
	"- a\n- b\n",
	"\"just a string\"\n",
	"42\n",
	"~\n",
	"",
	"---\n---\nsteps: []\n",
	"steps: []\n",
	"steps: {}\n",
	"steps:\n  a: {command: x}\n",
	"name: [x]\n",
	"name: {a: b}\n",
	"timeoutSec: abc\n",
	"timeoutSec: -1\nsteps:\n  - name: a\n    command: \"true\"\n",
	"delaySec: 99999999999999999999\n",
	"histRetentionDays: ~\nmaxCleanUpTimeSec: ~\nsteps:\n  - name: a\n    command: \"true\"\n",
	"mailOn: ~\nsteps:\n  - name: a\n    command: \"true\"\n",
	"mailOn: 3\n",
	"errorMail: [a]\n",
	"steps:\n  - name: a\n    command: \"true\"\n    depends: [~]\n",
	"steps:\n  - name: a\n    command: \"true\"\n    depends: a\n",
	"steps:\n  - name: a\n    command: \"true\"\n    retryPolicy: ~\n    repeatPolicy: ~\n    continueOn: ~\n",
	"steps:\n  - name: a\n    command: \"true\"\n    retryPolicy: {limit: x}\n",
	"steps:\n  - name: a\n    command: {a: b}\n",
	"steps:\n  - name: a\n    command: 5\n",
	"steps:\n  - name: a\n    script: \"echo only a script\"\n",
	"steps:\n  - name: a\n    command: \"true\"\n  - name: a\n    command: \"true\"\n",
	"logDir: \"`verif-no-such-binary`\"\nsteps:\n  - name: a\n    command: \"true\"\n",
}

// deepDoc returns a document nested depth levels deep.
func deepDoc(kind, depth int) string {
	switch kind {
	case 0:
		return "a: " + strings.Repeat("[", depth) + strings.Repeat("]", depth) + "\n"
	case 1:
		return "a: " + strings.Repeat("{a: ", depth) + "1" + strings.Repeat("}", depth) + "\n"
	default:
		var b strings.Builder
		b.WriteString("steps:\n  - name: a\n    command: \"true\"\n    executor:\n      type: command\n      config:\n")
		ind := "        "
		for i := 0; i < depth; i++ {
			b.WriteString(ind + "k:\n")
			ind += "  "
		}
		b.WriteString(ind + "k: 1\n")
		return b.String()
	}
}
