package props

// C16, storm pass: eight starters loop over `blackdagger start` of ONE DAG file whose single
// step takes 8 ms, so that runs end and begin all the time while other starters are anywhere
// between opening the run lock and binding the status socket (the three-process interleavings
// the pause pass, which holds one process and starts one other, cannot make: a run ends while a
// second starter is inside its admission sequence and a third one begins).  Nothing is decided
// by the harness here; the oracle is the same as in the pause pass: the intervals in which runs
// executed steps (first BEGIN to last END per request id, from the marker file the step
// children append to) never overlap - checked against the mutex model with porcupine - and
// every run that executed steps can be read back from the history.

import (
	"fmt"
	"os"
	"path/filepath"
	"strings"
	"sync"
	"time"

	"github.com/anishathalye/porcupine"

	"github.com/ErdemOzgen/blackdagger/verifh/core"
)

func c16Storm(c *core.Ctx) {
	self, _ := os.Executable()
	rounds := c.Pick(64, 640)
	for idx := 9 << 20; idx < 9<<20+rounds; idx++ {
		if !c.Mine(idx) {
			continue
		}
		starters, loops := 8, 40
		desc := map[string]any{"starters": starters, "starts_each": loops, "step_ms": 8}
		c.Begin(idx, desc)
		func() {
			h, err := newBDHome(c, "c16s-")
			if err != nil {
				c.Inconclusive(err.Error())
				return
			}
			defer os.RemoveAll(h.root)
			loc := filepath.Join(h.dags, "one.yaml")
			marker := filepath.Join(h.root, "marker.txt")
			_ = os.WriteFile(loc, []byte(fmt.Sprintf("steps:\n  - name: s1\n    command: %s\n", yq(fmt.Sprintf("%s c16step %s s1 8", self, marker)))), 0644)
			var wg sync.WaitGroup
			var mu sync.Mutex
			admitted, refused, other := 0, 0, 0
			for s := 0; s < starters; s++ {
				wg.Add(1)
				go func() {
					defer wg.Done()
					for i := 0; i < loops; i++ {
						code, out, to := h.run(60*time.Second, "start", loc)
						mu.Lock()
						switch {
						case to:
							other++
						case code == 0:
							admitted++
						case strings.Contains(out, "already running") || strings.Contains(out, "is already"):
							refused++
						default:
							other++
						}
						mu.Unlock()
					}
				}()
			}
			wg.Wait()
			evs := readMarker(marker)
			c.Eval(1)
			c.Count("obligations", 1)
			c.Count("storm_starts", int64(starters*loops))
			c.Count("storm_starts_admitted", int64(admitted))
			c.Count("storm_starts_refused", int64(refused))
			c.Count("storm_starts_ended_otherwise", int64(other))
			res, iv, reqs := heldHistory(evs)
			c.Count("storm_runs_that_executed_steps", int64(len(reqs)))
			desc["runs_that_executed_steps"] = len(reqs)
			switch res {
			case porcupine.Illegal:
				var lines []string
				for i, r := range reqs {
					lines = append(lines, fmt.Sprintf("%s [%d,%d]", r, iv[i][0], iv[i][1]))
				}
				c.Violate(idx, "both-ran|storm", fmt.Sprintf("two runs of the same DAG file executed steps at the same time (%d starters x %d starts; intervals in ns): %v", starters, loops, lines), desc)
				return
			case porcupine.Unknown:
				c.Inconclusive("c16 storm: history check timed out")
				return
			}
			c.Sig("storm", len(reqs) > 1, refused > 0)
			c.Sample(desc)
		}()
		c.End(idx)
	}
}
