package props

// C01, real pass: larger, densely connected definitions (14-30 steps, up to six dependencies each) with forward references (a step depending on
// steps that are defined after it), loaded from YAML and run by the real binary in a FRESH
// process (node ids 1..n, as every production run has them; a shard of the scripted passes has
// ids in the millions).  Each step is a child process appending BEGIN / END lines to a marker
// file.  Oracle: a step's BEGIN comes after the END of every step it depends on; every step runs
// exactly once; the run succeeds.

import (
	"fmt"
	"os"
	"path/filepath"
	"strings"
	"time"

	"github.com/ErdemOzgen/blackdagger/verifh/core"
)

func c01RealBody(c *core.Ctx) {
	self, _ := os.Executable()
	n := c.Pick(24, 300)
	idx := 4 << 20
	for i := 0; i < n; i++ {
		if !c.Mine(idx) {
			idx++
			continue
		}
		r := c.Rand("c01real", idx)
		h, err := newBDHome(c, "c01r-")
		if err != nil {
			c.Inconclusive(err.Error())
			return
		}
		N := 14 + r.Intn(17)
		// a random topological order, and a different order of definition
		topo := r.Perm(N)
		pos := make([]int, N)
		for p, s := range topo {
			pos[s] = p
		}
		deps := make([][]int, N)
		for s := 0; s < N; s++ {
			for k := 0; k < 6; k++ {
				if pos[s] > 0 && r.Intn(100) < 55 {
					d := topo[r.Intn(pos[s])] // any step earlier in the topological order
					dup := false
					for _, x := range deps[s] {
						dup = dup || x == d
					}
					if !dup {
						deps[s] = append(deps[s], d)
					}
				}
			}
		}
		name := func(s int) string { return fmt.Sprintf("s%02d", s+1) }
		marker := filepath.Join(h.root, "marker.txt")
		var b strings.Builder
		b.WriteString("steps:\n")
		forward := 0
		for s := 0; s < N; s++ { // definition order = numeric order
			fmt.Fprintf(&b, "  - name: %s\n    command: %s\n", name(s), yq(fmt.Sprintf("%s c16step %s %s %d", self, marker, name(s), 5+r.Intn(40))))
			if len(deps[s]) > 0 {
				var ds []string
				for _, d := range deps[s] {
					ds = append(ds, name(d))
					if d > s {
						forward++
					}
				}
				fmt.Fprintf(&b, "    depends: [%s]\n", strings.Join(ds, ", "))
			}
		}
		loc := filepath.Join(h.dags, "big.yaml")
		_ = os.WriteFile(loc, []byte(b.String()), 0644)
		desc := map[string]any{"steps": N, "forward_references": forward, "definition": b.String()}
		c.Begin(idx, desc)
		code, out, to := h.run(120*time.Second, "start", loc)
		c.Eval(1)
		evs := readMarker(marker)
		begin, end := map[string]int{}, map[string]int{}
		nBegin := map[string]int{}
		for k, e := range evs {
			if e.Kind == "BEGIN" {
				nBegin[e.Step]++
				if _, ok := begin[e.Step]; !ok {
					begin[e.Step] = k
				}
			} else {
				end[e.Step] = k
			}
		}
		c.Count("obligations", int64(N)+1)
		c.Count("real_steps", int64(N))
		c.Count("forward_references", int64(forward))
		if to || code != 0 {
			c.Violate(idx, "real-run-failed", fmt.Sprintf("a DAG of %d always-succeeding steps exited with status %d (timed out: %v): %s", N, code, to, clip(out, 300)), desc)
		}
		for s := 0; s < N; s++ {
			if nBegin[name(s)] != 1 {
				c.Violate(idx, "real-exec-count", fmt.Sprintf("step %s was executed %d time(s)", name(s), nBegin[name(s)]), desc)
				continue
			}
			for _, d := range deps[s] {
				c.Count("obligations", 1)
				e, ok := end[name(d)]
				if !ok || e > begin[name(s)] {
					c.Violate(idx, "real-dep-order", fmt.Sprintf("step %s began (marker line %d) before its dependency %s had ended (line %d, ended=%v); %d steps, %d forward references", name(s), begin[name(s)], name(d), e, ok, N, forward), desc)
				}
			}
		}
		c.Sig("c01real", idx, N, forward)
		if i%7 == 0 {
			c.Sample(map[string]any{"steps": N, "forward_references": forward})
		}
		os.RemoveAll(h.root)
		c.End(idx)
		idx++
	}
}
