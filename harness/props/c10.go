package props

import (
	"fmt"
	"os"
	"path/filepath"
	"sort"
	"strings"
	"time"

	"github.com/ErdemOzgen/blackdagger/internal/dag/scheduler"
	dsclient "github.com/ErdemOzgen/blackdagger/internal/persistence/client"
	"github.com/ErdemOzgen/blackdagger/internal/persistence/model"
	"github.com/ErdemOzgen/blackdagger/verifh/apih"
	"github.com/ErdemOzgen/blackdagger/verifh/core"
	"github.com/ErdemOzgen/blackdagger/verifh/vexec"
)

type paramCase struct {
	Class string
	Text  string
}

var c10Params = []paramCase{
	{"none", ""}, {"bare", "a b"}, {"named", "X=1 Y=2"}, {"mixed", "p1 Q=2 r3"},
	{"quoted-space", `"hello world"`}, {"quoted-space", `FOO="bar baz"`}, {"quoted-space", `x "y z" K="v w"`},
	{"equals-in-value", `A=b=c`}, {"quoted-nospace", `"abc" N="def"`},
}

func copyStatus(st *model.Status) *model.Status {
	b, err := st.ToJSON()
	if err != nil {
		return nil
	}
	cp, _ := model.StatusFromJSON(string(b))
	return cp
}

func vecOf(st *model.Status) string {
	var p []string
	for _, n := range st.Nodes {
		p = append(p, n.Step.Name+"="+n.Status.String())
	}
	sort.Strings(p)
	return strings.Join(p, ",")
}

// c10Check judges one retry of one recorded line.
func c10Check(spec2 *vexec.CaseSpec, target *model.Status, orig *vexec.Outcome, out *vexec.Outcome, filesBefore map[string]string, extra string) (rs []Report, obligations int) {
	add := func(key, f string, a ...any) { rs = append(rs, Report{"C10", key, fmt.Sprintf(f, a...)}) }
	by := specByName(spec2)
	rec := map[string]*model.Node{}
	for _, n := range target.Nodes {
		rec[n.Step.Name] = n
	}
	kinds := map[string]bool{}
	R := map[string]bool{}
	for name, n := range rec {
		switch n.Status {
		case scheduler.NodeStatusError, scheduler.NodeStatusCancel, scheduler.NodeStatusRunning, scheduler.NodeStatusNone:
			R[name] = true
			kinds[n.Status.String()] = true
		}
	}
	for changed := true; changed; {
		changed = false
		for name, n := range rec {
			if R[name] {
				continue
			}
			for _, d := range n.Step.Depends {
				if R[d] {
					R[name] = true
					changed = true
				}
			}
		}
	}
	var kl []string
	for k := range kinds {
		kl = append(kl, k)
	}
	sort.Strings(kl)
	kindKey := strings.Join(kl, "+")
	if kinds["running"] {
		kindKey = "recorded-running"
	}
	obligations++
	if out.Stuck {
		add("retry-spins:"+kindKey, "retry of a run recorded as [%s] never terminates: the scheduling loop reached a fix-point with unfinished steps and nothing running", vecOf(target))
		return rs, obligations
	}
	if out.Hung {
		add("retry-hangs:"+kindKey, "retry of a run recorded as [%s] did not return", vecOf(target))
		return rs, obligations
	}
	ex := out.Executions()
	for _, r := range SplitOnline(out) {
		if r.Prop == "C01" {
			add("retry-dep-order", "during the retry: %s", r.What)
		}
	}
	for _, r := range CheckC01Offline(spec2, out) {
		add("retry-dep-order", "during the retry: %s", r.What)
	}
	var last map[string]*model.Node
	if out.LastStatus != nil {
		last = map[string]*model.Node{}
		for _, n := range out.LastStatus.Nodes {
			last[n.Step.Name] = n
		}
	}
	for name, n := range rec {
		obligations++
		fin, ok := out.Final[name]
		if !ok {
			add("retry-node-missing", "recorded step %s is absent from the retry's graph", name)
			continue
		}
		if !R[name] {
			if ex[name] != 0 {
				add("reran-kept:"+n.Status.String(), "step %s was recorded %q (not in the unfinished part) but was executed %d time(s) by the retry", name, n.Status.String(), ex[name])
			}
			if fin.Status != n.Status.String() {
				add("kept-status-changed", "step %s was recorded %q and not re-executed, but the retry reports it %q", name, n.Status.String(), fin.Status)
			}
			if fin.RetryCount != n.RetryCount {
				add("kept-retrycount-changed", "kept step %s: recorded retry count %d, after the retry %d", name, n.RetryCount, fin.RetryCount)
			}
			if fin.Log != n.Log {
				add("kept-log-changed", "kept step %s: recorded log %q, after the retry %q", name, n.Log, fin.Log)
			}
			if ln := last[name]; ln != nil && (ln.StartedAt != n.StartedAt || ln.FinishedAt != n.FinishedAt) {
				add("kept-times-changed", "kept step %s: recorded times %s..%s, after the retry %s..%s", name, n.StartedAt, n.FinishedAt, ln.StartedAt, ln.FinishedAt)
			}
			continue
		}
		// in the unfinished part: must be re-executed if its dependencies let it
		s := by[name]
		blocked := false
		for _, d := range s.Depends {
			if !lets(by[d], out.Final[d].Status) {
				blocked = true
			}
		}
		switch {
		case blocked:
			if ex[name] != 0 {
				add("retry-ran-blocked", "step %s ran in the retry although a dependency did not let it proceed", name)
			}
			if fin.Status != "canceled" && fin.Status != "skipped" {
				add("retry-blocked-state", "step %s is blocked in the retry but ended %q", name, fin.Status)
			}
		case s.HasPrecond && s.PrecondUnmet:
			if ex[name] != 0 || fin.Status != "skipped" {
				add("retry-precond", "step %s has an unmet precondition but ran %d time(s) / ended %q in the retry", name, ex[name], fin.Status)
			}
		default:
			if ex[name] == 0 {
				add("not-rerun:"+n.Status.String(), "step %s was recorded %q (unfinished part) and its dependencies let it proceed, but the retry did not execute it (ended %q)", name, n.Status.String(), fin.Status)
			} else {
				// attempts of the retry run: scripted failures f, limit L => min(f, L)+1
				f, L := s.FailFirst, s.RetryLimit
				if f < 0 || f > L {
					f = L + 1
				}
				wantEx := f + 1
				want := "finished"
				if f > L {
					want = "failed"
					wantEx = L + 1
				}
				midRetry := n.Status == scheduler.NodeStatusNone && n.RetryCount > 0
				if fin.Status != want && !(midRetry && s.FailFirst > 0) {
					// (a step recorded in the middle of its retries may or may not get a
					// fresh budget: only scripts whose outcome does not depend on it are judged)
					add("retry-outcome", "step %s was re-executed with scripted result %s but ended %q", name, want, fin.Status)
				}
				if !midRetry {
					if ex[name] != wantEx {
						add("retry-run-attempts", "step %s (retry limit %d, scripted to fail its first %d attempts) was executed %d time(s) by the retry run, expected %d", name, L, s.FailFirst, ex[name], wantEx)
					} else if fin.RetryCount != ex[name]-1 {
						add("retry-run-retrycount", "step %s was executed %d time(s) by the retry run but its retry count reads %d", name, ex[name], fin.RetryCount)
					}
				}
			}
		}
	}
	if extra != "" && (ex[extra] > 0) {
		add("ran-unrecorded-step", "the DAG file was edited after the recorded run; the retry executed step %s which is not part of the recorded run", extra)
	}
	for name := range ex {
		if _, ok := rec[name]; !ok && !isHandlerStep(name) && name != extra {
			add("ran-unrecorded-step", "the retry executed step %s which is not part of the recorded run", name)
		}
	}
	// recorded as a new run; the old run untouched
	obligations += 2
	if out.DAG != nil {
		fresh := dsclient.NewDataStores(filepath.Dir(out.DAG.Location), out.DataDir, filepath.Join(out.Dir, "suspend"), dsclient.DataStoreOptions{})
		if out.ReqID == target.RequestID {
			add("same-request-id", "the retry re-used the request id of the recorded run")
		}
		if _, err := fresh.HistoryStore().FindByRequestID(out.DAG.Location, out.ReqID); err != nil {
			add("retry-not-recorded", "the retry (request %s) is not found in the history afterwards: %v", out.ReqID, err)
		}
		if sf, err := fresh.HistoryStore().FindByRequestID(out.DAG.Location, target.RequestID); err != nil {
			add("old-run-lost", "the recorded run %s is no longer found after the retry: %v", target.RequestID, err)
		} else if sf.Status.RequestID != target.RequestID {
			add("old-run-lost", "lookup of the recorded run returns another run")
		}
		after := apih.Dump(out.DataDir)
		for p, v := range filesBefore {
			if after[p] != v {
				add("old-run-modified", "history file %s of the recorded run changed during the retry (%s -> %s)", filepath.Base(p), v, after[p])
			}
		}
	}
	// parameters of the recorded run
	obligations++
	if orig.DAG != nil && fmt.Sprintf("%q", out.LoadedParams) != fmt.Sprintf("%q", orig.DAG.Params) {
		add("params-roundtrip:"+paramClass(spec2.Params), "the recorded run had parameters %q; reloading with the recorded parameter string %q gives %q", orig.DAG.Params, target.Params, out.LoadedParams)
	}
	return rs, obligations
}

func paramClass(text string) string {
	for _, p := range c10Params {
		if p.Text == text {
			return p.Class
		}
	}
	return "other"
}

func c10Body(c *core.Ctx) {
	if c.Mode == "killed" {
		c10KilledBody(c)
		return
	}
	vexec.Init()
	gen := GenOpts{MaxN: 6, Retries: true, Preconds: true, ContinueOn: true, Failures: true, MaxActive: true, Handlers: true}
	n := c.Pick(2500, 20000)
	if c.Mode != "controlled" {
		n = c.Pick(60, 1500)
	}
	idx := 0
	if c.Mode != "controlled" {
		idx = 1 << 20
	}
	for i := 0; i < n; i++ {
		if !c.Mine(idx) {
			idx++
			continue
		}
		r := c.Rand("c10", idx)
		spec := GenDAG(r, fmt.Sprintf("C10_%d", idx), gen)
		spec.Level = "agent"
		spec.DelayMs = 0
		pc := c10Params[r.Intn(len(c10Params))]
		if r.Intn(100) < 50 {
			pc = c10Params[r.Intn(4)]
		}
		spec.Params = pc.Text
		if r.Intn(100) < 30 {
			spec.Stop = &vexec.StopSpec{Kind: "signal", At: "decision", Nth: 1 + r.Intn(8)}
			spec.MaxCleanUpMs = 200
		}
		if c.Mode != "controlled" {
			spec.Free = true
			spec.Stop = nil
		}
		c.Begin(idx, spec)
		orig := vexec.Run(spec, &vexec.RunOpts{Scratch: c.Scratch, KeepDirs: true, RecordWrites: true})
		if orig.StopDropped {
			c.Count("original_runs_whose_stop_was_dropped", 1) // C05's business; the recorded run is still usable
		}
		if orig.Inconclusive != "" || orig.SetupErr != "" || len(orig.Lines) == 0 {
			if orig.Inconclusive != "" {
				c.Inconclusive(fmt.Sprintf("case %d original run: %s", idx, orig.Inconclusive))
			}
			if orig.Dir != "" {
				_ = os.RemoveAll(orig.Dir)
			}
			c.End(idx)
			idx++
			continue
		}
		// targets: the final line + distinct intermediate lines (states a crash could leave last)
		var targets []*model.Status
		seen := map[string]bool{}
		pick := func(st *model.Status) {
			v := vecOf(st)
			if !seen[v] {
				seen[v] = true
				targets = append(targets, st)
			}
		}
		pick(orig.Lines[len(orig.Lines)-1])
		perm := r.Perm(len(orig.Lines))
		for _, j := range perm {
			if len(targets) >= c.Pick(4, 8) {
				break
			}
			pick(orig.Lines[j])
		}
		for ti, t := range targets {
			spec2 := *spec
			spec2.Stop = nil
			spec2.Free = spec.Free
			spec2.Steps = nil
			for _, s := range spec.Steps {
				cp := *s
				// the retry run executes the RECORDED steps, so the recorded retry policy
				// applies; it has its own retry budget for every step it re-executes
				cp.FailFirst = 0
				if r.Intn(100) < 25 {
					cp.FailFirst = -1
				}
				if cp.RetryLimit > 0 {
					cp.FailFirst = []int{0, 1, 2, 3, -1}[r.Intn(5)]
				}
				if cp.HasPrecond {
					cp.PrecondUnmet = r.Intn(3) == 0
				}
				spec2.Steps = append(spec2.Steps, &cp)
			}
			extra := ""
			if r.Intn(2) == 0 {
				// the DAG file is edited between the recorded run and the retry
				extra = "zz"
				spec2.Steps = append(spec2.Steps, &vexec.StepSpec{Name: "zz"})
				spec2.Steps[0].Depends = append(append([]string(nil), spec2.Steps[0].Depends...), "zz")
			}
			spec2.DecSeed = r.Int63()
			// the DAG's own preconditions may have become unmet since the recorded run
			dagPrecondUnmet := r.Intn(100) < 12
			spec2.DagPrecondBad = dagPrecondUnmet
			tgt := copyStatus(t)
			if tgt == nil {
				continue
			}
			before := apih.Dump(orig.DataDir)
			for p := range before {
				if strings.HasSuffix(p, "/") {
					delete(before, p)
				}
			}
			var obl int64
			out := vexec.Run(&spec2, &vexec.RunOpts{Scratch: c.Scratch, Dir: orig.Dir, RetryTarget: tgt, HangBound: 20 * time.Second,
				OnRunEnter: OnlineMonitors(&spec2, &obl)})
			c.Eval(1)
			if out.Inconclusive != "" {
				c.Inconclusive(fmt.Sprintf("case %d retry %d: %s", idx, ti, out.Inconclusive))
				continue
			}
			if dagPrecondUnmet {
				// C04's last clause holds for a retry as well: no step and no handler runs
				c.Count("obligations", 1)
				c.Count("retries_with_unmet_dag_precondition", 1)
				var ran []string
				for _, e := range out.Events {
					if e.Kind == "RUN_ENTER" {
						ran = append(ran, e.Step)
					}
				}
				if len(ran) > 0 {
					c.Violate(idx, "retry-ignores-dag-precondition", fmt.Sprintf("the DAG's own preconditions are unmet at the time of the retry, yet the retry executed %v", ran),
						map[string]any{"case": spec, "retry_case": &spec2, "recorded": vecOf(t)})
				}
				continue
			}
			if out.SetupErr != "" {
				c.Violate(idx, "retry-setup-error", "retry could not be set up: "+out.SetupErr, map[string]any{"case": spec, "target": vecOf(t)})
				continue
			}
			if extra != "" {
				// the edited file has zz as a dependency of the first step; the retry graph must not
				spec2.Steps[0].Depends = spec2.Steps[0].Depends[:len(spec2.Steps[0].Depends)-1]
				spec2.Steps = spec2.Steps[:len(spec2.Steps)-1]
			}
			rs, nob := c10Check(&spec2, t, orig, out, before, extra)
			c.Count("obligations", int64(nob)+obl)
			c.Count("retries_run", 1)
			c.SetAdd("recorded_vectors_kinds", kindsOf(t))
			if ti > 0 {
				c.Count("retries_from_intermediate_line", 1)
			}
			seenK := map[string]bool{}
			for _, rep := range rs {
				if !seenK[rep.Key] {
					seenK[rep.Key] = true
					c.Violate(idx, rep.Key, rep.What, map[string]any{"case": spec, "retry_case": &spec2, "recorded": vecOf(t), "edited_file_adds": extra})
				}
			}
			c.Sig(ShapeSig(spec), vecOf(t), ShapeSig(&spec2))
			c.Sample(map[string]any{"case": spec, "recorded": vecOf(t), "retry_trace": TraceSig(out), "retry_final": out.Final})
		}
		_ = os.RemoveAll(orig.Dir)
		c.End(idx)
		idx++
	}
}

func kindsOf(st *model.Status) string {
	m := map[string]bool{}
	for _, n := range st.Nodes {
		m[n.Status.String()] = true
	}
	var l []string
	for k := range m {
		l = append(l, k)
	}
	sort.Strings(l)
	return strings.Join(l, "+")
}

func init() {
	core.RaceGate["C10"] = nodeAccessors
	core.Register(&core.Prop{ID: "C10", Level: "exploration", Body: c10Body, CrashKey: crashKeyGeneric, MinDistinct: 30,
		Passes: func(tier string) []core.Pass {
			return []core.Pass{
				{Name: "main", Mode: "controlled", Shards: 16, Timeout: 60 * time.Minute},
				{Name: "race", Mode: "free", Race: true, Shards: 16, Timeout: 60 * time.Minute},
				{Name: "killed", Mode: "killed", Shards: 12, Timeout: 60 * time.Minute},
			}
		},
		Rule: "Recorded runs are PRODUCED BY THE REAL AGENT: a generated DAG (<=6 steps, failures, continueOn, precondition lists, handlers, parameter strings from a pool incl. quoted values with spaces; 30% stopped by Agent.Signal at a PRNG-chosen point) is run through Agent.Run with a history store wrapper that keeps every status line written; every distinct line (final line + up to 3 (7) intermediate ones — the state a crash at that moment would leave last, which is how 'running' and 'not started' vectors arise) is then retried: dag.Load(file, recorded.Params) + agent with RetryTarget, as cmd/retry.go does, in the same data directory, with fresh scripts (25% of steps fail again, preconditions re-drawn) and in half the cases the DAG file edited in between (an extra step added as a dependency). Oracle: unfinished part R = recorded failed/canceled/running/not-started + everything downstream; every kept step has zero executor events and identical status, retry count, log path and start/finish times; every R step whose dependencies let it proceed is executed and ends as scripted; the C01 dependency gate holds during the retry; the retry terminates (logical fix-point detector); a new run with a new request id is found by a fresh store; every pre-existing history file is byte-identical; no step outside the recorded run executes; reloading with the recorded parameter string reproduces the original DAG.Params. Killed-run pass: the real `blackdagger start` of a 3-step DAG with two handlers is SIGKILLed by the ptrace supervisor before every third (thorough: every) watched system call; the record it leaves is retried with the real `blackdagger retry --req`: exit 0, steps recorded finished are not executed again, all others are, and the retry is recorded as a new run. Non-trivial = each retry executed. Distinct = (case, recorded vector, retry scripts).",
		Assumptions: []string{"the error text of kept steps is not compared (re-wrapped on load)",
			"for steps recorded mid-retry (not started with a non-zero retry count) only 'executed and ends as scripted' is demanded"}})
}
