package props

import (
	"fmt"
	"strings"
	"time"

	"github.com/ErdemOzgen/blackdagger/verifh/core"
	"github.com/ErdemOzgen/blackdagger/verifh/vexec"
)

var handlerTypes = []string{"onSuccess", "onFailure", "onCancel", "onExit"}

func isHandlerStep(name string) bool { return strings.HasPrefix(name, "on") }

// stopInterrupted reports whether the stop landed while the run still had
// something to do (an open run, a later launch, or a step left unfinished).
func stopInterrupted(spec *vexec.CaseSpec, out *vexec.Outcome) bool {
	if out.StopSeq < 0 {
		return false
	}
	open := map[string]bool{}
	for _, e := range out.Events {
		if isHandlerStep(e.Step) {
			continue
		}
		if e.Seq < out.StopSeq {
			switch e.Kind {
			case "RUN_ENTER":
				open[e.Step] = true
			case "RUN_EXIT":
				delete(open, e.Step)
			}
			if e.Kind == "HOOK" && e.Info == "launch" {
				open["w:"+e.Step] = true
			}
			if e.Kind == "HOOK" && e.Info == "worker.exit" {
				delete(open, "w:"+e.Step)
			}
			continue
		}
		if e.Kind == "RUN_ENTER" || e.Kind == "RUN_EXIT" || e.Kind == "KILL" || (e.Kind == "HOOK" && e.Info == "launch") {
			return true
		}
	}
	if len(open) > 0 {
		return true
	}
	for _, f := range out.Final {
		if f.Status == "not started" || f.Status == "running" {
			return true
		}
	}
	return false
}

// CheckC04 is the outcome + lifecycle-handler oracle.
func CheckC04(spec *vexec.CaseSpec, out *vexec.Outcome) (rs []Report, obligations int, judgedLabel bool) {
	if out.SetupErr != "" || out.Stuck || out.Hung || spec.Dry {
		return nil, 0, false
	}
	add := func(key, f string, a ...any) { rs = append(rs, Report{"C04", key, fmt.Sprintf(f, a...)}) }
	allOK, anyOwnFail, anySetupFail := true, false, false
	by := specByName(spec)
	lastExit := map[string]string{}
	for _, e := range out.Events {
		if e.Kind == "RUN_EXIT" {
			lastExit[e.Step] = e.Info
		}
	}
	// ground truth: a step counts as "finished successfully" only if its last
	// Run() actually returned without error
	var neverRan []string
	for name, f := range out.Final {
		if f.Status != "finished" && f.Status != "skipped" {
			allOK = false
		}
		if f.Status == "finished" && !isHandlerStep(name) && !strings.HasSuffix(lastExit[name], "|ok") {
			neverRan = append(neverRan, name)
		}
		if f.Status == "failed" {
			if by[name] != nil && by[name].SetupFail {
				anySetupFail = true
			} else if lastExit[name] == "script|err" {
				anyOwnFail = true
			}
		}
	}
	status := out.Status
	if spec.Level == "agent" && out.LastStatus != nil {
		status = out.LastStatus.Status.String()
	}
	judged := true
	stopped := out.StopSeq >= 0
	switch {
	case !stopped:
		want := "failed"
		if allOK {
			want = "finished"
		}
		obligations++
		if status != want {
			add("outcome-label", "run without stop ended with steps %s but is reported %q (expected %q)", finalVec(out), status, want)
		}
	case allOK && len(neverRan) > 0:
		// stopped, and steps that never completed an execution are labelled finished
		obligations++
		sortStrings(neverRan)
		if status == "finished" {
			add("outcome-label", "run was stopped at event %d before completing: step(s) %v never finished an execution (no successful Run() exit) yet are recorded as finished and the run is reported %q (expected canceled)", out.StopSeq, neverRan, status)
		}
	case allOK:
		obligations++
		if status != "finished" {
			add("outcome-label", "every step ended finished/skipped (stop accepted at event %d) but the run is reported %q (expected finished)", out.StopSeq, status)
		}
	case stopInterrupted(spec, out):
		obligations++
		if status != "canceled" && !((anyOwnFail || anySetupFail) && status == "failed") {
			add("outcome-label", "run was stopped at event %d before completing (steps %s) but is reported %q (expected canceled)", out.StopSeq, finalVec(out), status)
		}
	default:
		judged = false // stop arrived after the steps had completed: label is C05's business
	}

	// handlers
	enters := map[string]int{}
	lastEnterSeq, lastEnterStep := -1, ""
	handlersHook := -1
	lastStepExit := -1
	firstHandlerEnter := -1
	for _, e := range out.Events {
		switch {
		case e.Kind == "HOOK" && e.Info == "handlers":
			handlersHook = e.Seq
		case e.Kind == "RUN_ENTER":
			enters[e.Step]++
			lastEnterSeq, lastEnterStep = e.Seq, e.Step
			if isHandlerStep(e.Step) && firstHandlerEnter < 0 {
				firstHandlerEnter = e.Seq
			}
		case e.Kind == "RUN_EXIT" && !isHandlerStep(e.Step):
			lastStepExit = e.Seq
		}
	}
	_ = lastEnterSeq
	match := map[string]string{"finished": "onSuccess", "failed": "onFailure", "canceled": "onCancel"}[status]
	for _, t := range handlerTypes {
		h := spec.Handlers[t]
		n := enters[t]
		if h == nil {
			continue
		}
		obligations++
		fin, has := out.HandlerFinal[t]
		switch {
		case t == "onExit":
			if n != 1 {
				add("onexit-count", "onExit handler executed %d time(s) (expected exactly once); outcome %q", n, status)
			}
		case !judged:
			if n > 1 {
				add("handler-count", "%s handler executed %d times", t, n)
			}
		case t == match:
			if n != 1 {
				add("handler-missing", "outcome %q but its handler %s executed %d time(s) (expected once)", status, t, n)
			}
		default:
			if n != 0 {
				add("handler-wrong", "outcome %q but the non-matching handler %s executed %d time(s)", status, t, n)
			}
			if has && fin.Status != "not started" {
				add("handler-wrong-state", "outcome %q but the non-matching handler %s is in state %q", status, t, fin.Status)
			}
		}
		if n == 1 && has {
			want := "finished"
			if h.Fail {
				want = "failed"
			}
			if fin.Status != want {
				add("handler-state", "handler %s ran with scripted result %s but is in state %q", t, want, fin.Status)
			}
		}
	}
	if firstHandlerEnter >= 0 {
		obligations++
		if handlersHook < 0 || firstHandlerEnter < handlersHook {
			add("handler-early", "a handler started (event %d) before all step workers had finished (wg.Wait passed at event %d)", firstHandlerEnter, handlersHook)
		}
		if lastStepExit > firstHandlerEnter {
			add("handler-early", "a handler started (event %d) before the last step's Run() returned (event %d)", firstHandlerEnter, lastStepExit)
		}
	}
	if spec.Handlers["onExit"] != nil && enters["onExit"] == 1 && lastEnterStep != "onExit" {
		add("onexit-not-last", "onExit ran but %s entered Run() after it", lastEnterStep)
	}
	return rs, obligations, judged
}

func finalVec(out *vexec.Outcome) string {
	var parts []string
	for n, f := range out.Final {
		parts = append(parts, n+"="+f.Status)
	}
	sortStrings(parts)
	return "[" + strings.Join(parts, " ") + "]"
}

func sortStrings(s []string) {
	for i := 1; i < len(s); i++ {
		for j := i; j > 0 && s[j] < s[j-1]; j-- {
			s[j], s[j-1] = s[j-1], s[j]
		}
	}
}

func c04Body(c *core.Ctx) {
	if c.Mode == "base" {
		c04BaseBody(c)
		return
	}
	vexec.Init()
	gen := GenOpts{MaxN: 5, Retries: true, Preconds: true, ContinueOn: true, Failures: true, MaxActive: true, Handlers: true}
	handle := func(idx int, spec *vexec.CaseSpec, out *vexec.Outcome) {
		c.Eval(1)
		if out.StopDropped {
			// "canceled iff it was stopped before completing": the stop was requested and never acted upon
			c.Count("obligations", 1)
			c.Violate(idx, "stop-dropped", fmt.Sprintf("a stop was requested while the run was in progress and had not been acted upon 20 s later; the run is reported %q", out.Status), map[string]any{"case": spec, "trace": TraceSig(out)})
			return
		}
		if out.Inconclusive != "" {
			c.Inconclusive(fmt.Sprintf("case %d: %s", idx, out.Inconclusive))
			return
		}
		if out.SetupErr != "" {
			c.Inconclusive(fmt.Sprintf("case %d: setup error %s", idx, out.SetupErr))
			return
		}
		if spec.DagPrecondBad {
			c.Count("obligations", 1)
			c.Count("dag_precondition_cases", 1)
			n := int(out.Creates)
			for _, e := range out.Events {
				if e.Kind == "RUN_ENTER" {
					n++
				}
			}
			if n > 0 {
				c.Violate(idx, "dag-precond-ran", fmt.Sprintf("DAG preconditions unmet but %d executor event(s) happened", n), spec)
			}
			if out.RunErr == "" {
				c.Violate(idx, "dag-precond-noerr", "DAG preconditions unmet but Agent.Run returned no error", spec)
			}
			c.Sig("precond", ShapeSig(spec))
			return
		}
		rs, n, judged := CheckC04(spec, out)
		c.Count("obligations", int64(n))
		c.Count("events", int64(len(out.Events)))
		if judged {
			c.Count("label_judged", 1)
		} else {
			c.Count("label_not_judged_stop_after_completion", 1)
		}
		if out.StopSeq >= 0 {
			c.Count("stop_cases", 1)
		}
		c.SetAdd("outcomes", out.Status+"/"+fmt.Sprint(out.StopSeq >= 0))
		for _, r := range rs {
			c.Violate(idx, r.Key, r.What, spec)
		}
		if len(spec.Handlers) > 0 || out.StopSeq >= 0 {
			c.Sig(ShapeSig(spec), TraceSig(out))
			c.Sample(map[string]any{"case": spec, "trace": TraceSig(out), "status": out.Status, "handlers": out.HandlerFinal})
		}
	}
	mk := func(idx int, stream string) *vexec.CaseSpec {
		r := c.Rand(stream, idx)
		spec := GenDAG(r, fmt.Sprintf("C04_%s%d", stream, idx), gen)
		if r.Intn(100) < 8 {
			spec.Steps[r.Intn(len(spec.Steps))].SetupFail = true
		}
		if r.Intn(100) < 35 {
			kinds := []string{"signal", "cancel", "http"}
			spec.Stop = &vexec.StopSpec{Kind: kinds[r.Intn(len(kinds))], At: "decision", Nth: r.Intn(14)}
			if r.Intn(4) == 0 {
				ats := []string{"beforeLaunch", "launch", "worker.beforeExec", "retry.wait"}
				spec.Stop.At = ats[r.Intn(len(ats))]
				spec.Stop.Nth = r.Intn(3)
			}
			spec.PauseUs = 100
		}
		for _, s := range spec.Steps {
			s.RetryMs = 0
		}
		return spec
	}
	idx := 0
	if c.Mode == "controlled" {
		// every subset of the four handlers x scripted ok/fail on small fixed shapes
		for mask := 0; mask < 81; mask++ { // 3^4: absent / ok / fail per handler
			for variant := 0; variant < 4; variant++ {
				if c.Mine(idx) {
					r := c.Rand("subset", idx)
					spec := GenDAG(r, fmt.Sprintf("C04_s%d", idx), GenOpts{MaxN: 3, Retries: true, ContinueOn: true, Failures: true})
					spec.Handlers = map[string]*vexec.HandlerSpec{}
					m := mask
					for _, t := range handlerTypes {
						switch m % 3 {
						case 1:
							spec.Handlers[t] = &vexec.HandlerSpec{}
						case 2:
							spec.Handlers[t] = &vexec.HandlerSpec{Fail: true}
						}
						m /= 3
					}
					if variant >= 2 {
						spec.Stop = &vexec.StopSpec{Kind: []string{"signal", "cancel"}[variant-2], At: "decision", Nth: r.Intn(6)}
					}
					c.Begin(idx, spec)
					handle(idx, spec, vexec.Run(spec, &vexec.RunOpts{Scratch: c.Scratch}))
					c.End(idx)
				}
				idx++
			}
		}
		nb := c.Pick(30000, 400000)
		for i := 0; i < nb; i++ {
			if c.Mine(idx) {
				spec := mk(idx, "r")
				c.Begin(idx, spec)
				handle(idx, spec, vexec.Run(spec, &vexec.RunOpts{Scratch: c.Scratch}))
				c.End(idx)
			}
			idx++
		}
		// agent level (real Agent.Run, jsondb, socket): a smaller number
		na := c.Pick(600, 8000)
		for i := 0; i < na; i++ {
			if c.Mine(idx) {
				spec := mk(idx, "ag")
				spec.Level = "agent"
				spec.DelayMs = 0
				if spec.Stop != nil && spec.Stop.Kind == "cancel" {
					spec.Stop.Kind = "signal"
				}
				if spec.Stop != nil {
					spec.MaxCleanUpMs = 200
				}
				if spec.Stop == nil && i%7 == 0 {
					spec.DagPrecondBad = true
				}
				c.Begin(idx, spec)
				out := vexec.Run(spec, &vexec.RunOpts{Scratch: c.Scratch})
				c.Count("agent_runs", 1)
				handle(idx, spec, out)
				c.End(idx)
			}
			idx++
		}
		return
	}
	idx = 1 << 20
	nf := c.Pick(6000, 80000)
	for i := 0; i < nf; i++ {
		if c.Mine(idx) {
			spec := mk(idx, "f")
			spec.Free = true
			spec.PauseUs = 200
			if spec.Stop != nil {
				// free-running: the stop lands at the n-th launch / beforeExec
				spec.Stop.At = []string{"launch", "worker.beforeExec", "beforeLaunch"}[i%3]
				spec.Stop.Nth = i % 3
				if spec.Stop.Kind == "http" {
					spec.Stop.Kind = "signal"
				}
			}
			c.Begin(idx, spec)
			handle(idx, spec, vexec.Run(spec, &vexec.RunOpts{Scratch: c.Scratch}))
			c.End(idx)
		}
		idx++
	}
}

func init() {
	core.Register(&core.Prop{ID: "C04", Level: "exploration", Body: c04Body, CrashKey: crashKeyGeneric, MinDistinct: 50,
		Passes: func(tier string) []core.Pass {
			return []core.Pass{
				{Name: "main", Mode: "controlled", Shards: 16, Timeout: 40 * time.Minute},
				{Name: "race", Mode: "free", Race: true, Shards: 16, Timeout: 40 * time.Minute},
				{Name: "base", Mode: "base", Shards: 12, Timeout: 40 * time.Minute},
			}
		},
		Rule: "Cases: all 81 absent/ok/fail assignments of the four handlers x {no stop, no stop, Signal, Cancel} on random DAGs <=3 steps; random DAGs <=5 steps with retries, continueOn, preconditions, set-up failures (unwritable stdout), maxActiveRuns, and in 35% a stop (Scheduler.Signal / Cancel, or Agent.Signal / POST /stop over the real socket at agent level) landed synchronously at a PRNG-chosen decision point or hook instant (launch, before exec, retry wait); agent-level runs through Agent.Run with real jsondb incl. unmet DAG preconditions; free-running pass under -race. Oracle: Scheduler.Status / Agent.Status label vs the final step states (stop-after-completion is not judged), exactly-once matching handler after wg.Wait and after the last step's Run() exit, non-matching handlers never, onExit once and last, handler state == scripted result. Base pass: 64 (all 480) combinations of {handlers defined in the base configuration file} x {handlers defined in the DAG} x {the run succeeds, fails}, real binary, every handler a probe child: exactly the matching handlers run once each, the DAG's own one where both define the type, the base's where only the base does. Non-trivial = handlers configured or a stop injected. Distinct = (shape+flags+handlers+stop, event order).",
		Assumptions: []string{"label after a stop that arrives when all steps have completed is not judged here (C05)",
			"when a stop coincides with an independent step failure both canceled and failed are accepted"}})
}
