package props

// C04, base pass: lifecycle handlers that come from the BASE configuration file
// ($BLACKDAGGER_HOME/base.yaml, merged into every DAG) together with handlers the DAG defines
// itself.  Real binary; every handler is a probe child that leaves a file named after where it
// was defined and its type.  Oracle: for the run's outcome exactly the matching handlers run,
// once each — the DAG's own one where both define the type, the base's where only the base does.

import (
	"fmt"
	"os"
	"path/filepath"
	"sort"
	"strings"
	"time"

	"github.com/ErdemOzgen/blackdagger/verifh/core"
)

func c04BaseBody(c *core.Ctx) {
	self, _ := os.Executable()
	types := []string{"success", "failure", "exit", "cancel"}
	type cs struct {
		base, own int // bit sets over types
		fails     bool
	}
	var all []cs
	for b := 0; b < 16; b++ {
		for o := 0; o < 16; o++ {
			if b == 0 {
				continue // no base handlers: the main passes
			}
			all = append(all, cs{b, o, false}, cs{b, o, true})
		}
	}
	r := c.Rand("c04base", 0)
	r.Shuffle(len(all), func(i, j int) { all[i], all[j] = all[j], all[i] })
	n := c.Pick(64, len(all))
	idx := 5 << 20
	for _, k := range all[:n] {
		if !c.Mine(idx) {
			idx++
			continue
		}
		h, err := newBDHome(c, "c04b-")
		if err != nil {
			c.Inconclusive(err.Error())
			return
		}
		probe := func(src, t string) string {
			return fmt.Sprintf("%s probe %s 0", self, filepath.Join(h.root, "ran-"+src+"-"+t+".json"))
		}
		section := func(src string, set int) string {
			if set == 0 {
				return ""
			}
			s := "handlerOn:\n"
			for i, t := range types {
				if set&(1<<i) != 0 {
					s += "  " + t + ":\n    command: " + yq(probe(src, t)) + "\n"
				}
			}
			return s
		}
		_ = os.WriteFile(filepath.Join(h.home, "base.yaml"), []byte(section("base", k.base)), 0644)
		stepCmd := "true"
		if k.fails {
			stepCmd = "false"
		}
		loc := filepath.Join(h.dags, "b.yaml")
		_ = os.WriteFile(loc, []byte(section("dag", k.own)+"steps:\n  - name: only\n    command: \""+stepCmd+"\"\n"), 0644)
		names := func(set int) []string {
			var out []string
			for i, t := range types {
				if set&(1<<i) != 0 {
					out = append(out, t)
				}
			}
			return out
		}
		desc := map[string]any{"base_handlers": names(k.base), "dag_handlers": names(k.own), "step_fails": k.fails}
		c.Begin(idx, desc)
		_, out, to := h.run(60*time.Second, "start", loc)
		c.Eval(1)
		if to {
			c.Inconclusive("c04 base: start timed out: " + clip(out, 200))
		}
		// expectation
		matching := map[string]bool{"exit": true, "success": !k.fails, "failure": k.fails}
		var want, got []string
		for i, t := range types {
			if !matching[t] {
				continue
			}
			switch {
			case k.own&(1<<i) != 0:
				want = append(want, "dag-"+t)
			case k.base&(1<<i) != 0:
				want = append(want, "base-"+t)
			}
		}
		files, _ := filepath.Glob(filepath.Join(h.root, "ran-*.json"))
		for _, f := range files {
			name := strings.TrimSuffix(strings.TrimPrefix(filepath.Base(f), "ran-"), ".json")
			for range readProbes(f) {
				got = append(got, name)
			}
		}
		sort.Strings(want)
		sort.Strings(got)
		desc["handlers_expected"], desc["handlers_run"] = want, got
		c.Count("obligations", 1)
		c.Count("runs_with_base_handlers", 1)
		if strings.Join(want, ",") != strings.Join(got, ",") {
			c.Violate(idx, "base-handlers", fmt.Sprintf("run %s with handlers %v in the base configuration and %v in the DAG: handlers run %v, expected %v", map[bool]string{true: "failed", false: "succeeded"}[k.fails], names(k.base), names(k.own), got, want), desc)
		}
		c.Sig("c04base", k.base, k.own, k.fails)
		if idx%11 == 0 {
			c.Sample(desc)
		}
		os.RemoveAll(h.root)
		c.End(idx)
		idx++
	}
}
